"""Fresh-interpreter worker for the cross-process parts of C01 and C04.

Started by pbt.xproc with its own PYTHONHASHSEED and (optionally) a permuted field declaration
order of the universe (VERIF_PERM_SEED). Speaks JSON lines on stdin/stdout.
"""
from __future__ import annotations

import json
import os
import sys


def main() -> None:
    verif = os.path.dirname(os.path.dirname(os.path.abspath(__file__)))
    repo_src = os.path.join(os.environ.get("VERIF_REPO", "/repo"), "src")
    sys.path.insert(0, verif)
    sys.path.insert(0, repo_src)
    sys.dont_write_bytecode = True
    from pbt import models_v2 as M

    perm = os.environ.get("VERIF_PERM_SEED")
    M.load(int(perm) if perm else None)
    from pbt import runtime as rt
    from pbt import trees as T

    out = sys.stdout
    for line in sys.stdin:
        req = json.loads(line)
        try:
            rt.reset_globals()
            if req["op"] == "ping":
                res = {"ok": True, "hashseed": os.environ.get("PYTHONHASHSEED"), "perm": perm,
                       "hash_a": hash("a")}
            elif req["op"] == "cids":
                from pyoak import config

                config.ID_DIGEST_SIZE = req.get("digest", 8)
                b, root_e, ex = T.build(req["spec"])
                res = {"ok": True, "cids": {str(e.uid): b.of(e).content_id for e in ex.done}}
            elif req["op"] == "load":
                from pbt.props import c04

                res = {"ok": True, "dump": c04.worker_load(req)}
            else:
                res = {"ok": False, "error": f"unknown op {req['op']}"}
        except Exception as e:  # noqa: BLE001
            res = {"ok": False, "error": rt.short_tb(e, 8), "from_library": rt.from_library(e)}
        out.write(json.dumps(res) + "\n")
        out.flush()


if __name__ == "__main__":
    main()
