"""The fixed v2 node universe, generated from a table.

The same logical model can be emitted with the fields of every class declared in a permuted
order (all classes are kw_only, so every permutation is a legal dataclass); C01's worker
processes use that to show that content ids do not depend on declaration order.
"""
from __future__ import annotations

import random
import sys
import types
from dataclasses import dataclass, field
from typing import Any

MODULE_NAME = "pbt_universe_v2"


@dataclass
class FieldDef:
    name: str
    ann: str  # annotation source
    kind: str  # prop kinds: int bool optint enum tint ft fsint fsstr str float path lit optstr
    #            child kinds: one opt tuple fixed
    default: str | None = None  # source of the default value
    compare: bool = True
    init: bool = True
    extra_args: str = ""  # further field(...) arguments that do not change what the node *is* (hash=, repr=, metadata=)
    classes: tuple[str, ...] = ()  # for child fields: admissible classes ("Base" = any)
    fixed: tuple[tuple[str, ...], ...] = ()  # for kind == fixed: admissible classes per element

    @property
    def is_child(self) -> bool:
        return self.kind in ("one", "opt", "tuple", "fixed")


@dataclass
class ClassDef:
    name: str
    base: str
    fields: list[FieldDef] = field(default_factory=list)
    extra_body: str = ""
    slots: bool = False
    local: bool = False  # defined inside a factory function (its __qualname__ is not its __name__)
    positional: bool = False  # decorator without kw_only=True: fields are positional unless they say otherwise
    more_bases: tuple[str, ...] = ()  # multiple inheritance: further bases after `base`
    abstract: bool = False  # has an unimplemented abstract method (cannot be instantiated)
    pre: str = ""  # module-level source emitted right before the class (aliases the annotations need)


ANY = ("Base",)

TABLE: list[ClassDef] = [
    ClassDef("Base", "ASTNode"),
    ClassDef("LeafA", "Base", [FieldDef("v", "int", "int", "0")]),
    ClassDef("LeafB", "Base", [FieldDef("v", "int", "int", "0")]),
    # child fields declared compare=False (children are content whatever the flag says)
    ClassDef("NcKids", "Base", [FieldDef("kid", "Base | None", "opt", "None", classes=ANY),
                                FieldDef("trivia", "tuple[Base, ...]", "tuple", "()", compare=False, classes=ANY),
                                FieldDef("note", "Base | None", "opt", "None", compare=False, classes=ANY)]),
    # a per-instance value that is neither a constructor argument nor compared (a serial number)
    ClassDef("Serial", "Base", [FieldDef("v", "int", "int", "0"),
                                FieldDef("stamp", "int", "int", None, compare=False, init=False,
                                         extra_args="default_factory=_next_serial")]),
    # a node class that implements the Collection protocol itself, and a holder typed with exactly that class
    ClassDef("CollBlock", "Base", [FieldDef("stmts", "tuple[Base, ...]", "tuple", "()", classes=ANY),
                                   FieldDef("result", "Base | None", "opt", "None", classes=ANY)],
             extra_body="\n    def __len__(self):\n        return len(self.stmts)\n\n    def __iter__(self):\n        return iter(self.stmts)\n\n"
                        "    def __contains__(self, x):\n        return any(x is s for s in self.stmts)\n"),
    ClassDef("Fn", "Base", [FieldDef("body", "CollBlock", "one", None, classes=("CollBlock",)),
                            FieldDef("alt", "CollBlock | None", "opt", "None", classes=("CollBlock",))]),
    # child fields typed through a NewType alias of a node class, nested in a tuple / an Optional
    ClassDef("NtBox", "Base", [FieldDef("kids", "tuple[KidRef, ...]", "tuple", "()", classes=("LeafA",)),
                               FieldDef("one", "Optional[KidRef]", "opt", "None", classes=("LeafA",))],
             pre="\n\nKidRef = NewType(\"KidRef\", LeafA)\n"),
    # child fields whose names are also names inside the library's generated and internal code
    ClassDef("Odd", "Base", [FieldDef("self", "Base | None", "opt", "None", classes=ANY),
                             FieldDef("node", "Base | None", "opt", "None", classes=ANY),
                             FieldDef("arg", "Base | None", "opt", "None", classes=ANY),
                             FieldDef("args", "tuple[Base, ...]", "tuple", "()", classes=ANY),
                             FieldDef("o", "Base | None", "opt", "None", classes=ANY),
                             FieldDef("i", "Base | None", "opt", "None", classes=ANY)]),
    # a child field that is no constructor argument: every instance gets a leaf of its own from a factory
    ClassDef("NoInit", "Base", [FieldDef("kid", "Base | None", "opt", "None", classes=ANY),
                                FieldDef("auto", "LeafA", "one", None, init=False,
                                         extra_args="default_factory=_auto_leaf", classes=("LeafA",)),
                                FieldDef("last", "Base | None", "opt", "None", classes=ANY)]),
    # a class that overrides the default of the inherited `origin` field
    ClassDef("Synth", "Base", [FieldDef("v", "int", "int", "0")],
             extra_body="    origin: Origin = field(default=SYNTH_ORIGIN, kw_only=True)\n"),
    ClassDef("SubLeafA", "LeafA", [FieldDef("extra", "str", "str", '""')]),
    # a third inheritance level, a class-level constant (ClassVar: not a dataclass field) and an overridden default
    ClassDef("SubSubLeafA", "SubLeafA", [FieldDef("v", "int", "int", "5"), FieldDef("deep", "bool", "bool", "False")],
             extra_body="    LIMIT: ClassVar[int] = 3\n"),
    ClassDef(
        "Strs", "Base",
        [FieldDef("a", "str", "str", '""'), FieldDef("b", "str", "str", '""'),
         FieldDef("ab", "str", "str", '""')],
    ),
    ClassDef(
        "Vals", "Base",
        [
            FieldDef("b", "bool", "bool", "False"),
            FieldDef("i", "int", "int", "0"),
            FieldDef("o", "int | None", "optint", "None"),
            FieldDef("e", "Color", "enum", "Color.RED"),
            FieldDef("t", "tuple[int, ...]", "tint", "()"),
            FieldDef("ft", "tuple[int, str]", "ft", '(0, "")'),
            FieldDef("fs", "frozenset[int]", "fsint", "frozenset()"),
            FieldDef("fss", "frozenset[str]", "fsstr", "frozenset()"),
            FieldDef("ffs", "frozenset[frozenset[int]]", "fsfs", "frozenset()"),
            FieldDef("tfs", "tuple[frozenset[int], ...]", "tfs", "()"),
            FieldDef("sk", "SKind", "senum", "SKind.ADD"),
            FieldDef("by", "bytes", "bytes", 'b""'),
            # comparable, but kept out of a dataclass-generated hash; shown nowhere; with metadata
            FieldDef("hf", "int", "int", "0", extra_args='hash=False, repr=False, metadata={"doc": "x"}'),
            # not comparable although hash=True is requested
            FieldDef("hn", "int", "int", "0", compare=False, extra_args="hash=True"),
            FieldDef("nc", "str", "str", '""', compare=False),
            FieldDef("ni", "int", "int", "7", init=False),
            FieldDef("nn", "int", "int", "1", init=False, compare=False),
        ],
    ),
    # a class defined inside a function (a model factory): its qualified name is not its name
    ClassDef("LocalLeaf", "Base", [FieldDef("v", "int", "int", "0")], local=True),
    ClassDef("LocalBox", "Base", [FieldDef("kid", "Base | None", "opt", "None", classes=ANY)], local=True),
    # a child field called `children` (a legal field name; it hides the inherited convenience property
    # of that name for this class) next to other child fields
    ClassDef(
        "Kids", "Base",
        [FieldDef("header", "Base | None", "opt", "None", classes=ANY),
         FieldDef("children", "tuple[Base, ...]", "tuple", "()", classes=ANY),
         FieldDef("footer", "Base | None", "opt", "None", classes=ANY)],
    ),
    # child fields declared keyword-only *before* a positional one (the field order is the declaration
    # order, only the constructor signature moves keyword-only parameters to the end)
    ClassDef(
        "KwFirst", "Base",
        [FieldDef("late", "Base | None", "opt", "None", classes=ANY, extra_args="kw_only=True"),
         FieldDef("early", "Base | None", "opt", "None", classes=ANY),
         FieldDef("v", "int", "int", "0")],
        positional=True,
    ),
    # a property typed Any that holds a node (or a tuple of nodes) at run time, e.g. a resolved
    # reference to a declaration elsewhere: a value, not a child
    ClassDef(
        "Ref", "Base",
        [FieldDef("kid", "Base | None", "opt", "None", classes=ANY),
         FieldDef("target", "Any", "anyref", "None", compare=False)],
    ),
    # an `Any`-typed property that holds a plain dict (handed through by the serialization layer as it is)
    ClassDef("Meta", "Base", [FieldDef("v", "int", "int", "0"), FieldDef("meta", "Any", "anydict", "None", compare=False)]),
    # a class body with value-based __eq__ / __hash__ of its own (the library installs its own pair)
    ClassDef(
        "EqLeaf", "Base",
        [FieldDef("v", "int", "int", "0")],
        extra_body=("    def __eq__(self, other: object) -> bool:\n"
                    "        return type(other) is type(self) and other.v == self.v\n\n"
                    "    def __hash__(self) -> int:\n        return hash(self.v)\n"),
    ),
    # a class that validates in its own __post_init__ AFTER the base class has registered the node
    ClassDef(
        "Checked", "Base",
        [FieldDef("v", "int", "int", "0"), FieldDef("note", "str", "str", '""', compare=False)],
        extra_body=("    def __post_init__(self) -> None:\n        super().__post_init__()\n"
                    "        if self.note == \"bad\":\n            raise ValueError(\"bad note\")\n"),
    ),
    ClassDef(
        "SerVals", "Base",
        [
            FieldDef("f", "float", "float", "0.0"),
            FieldDef("p", "Path", "path", 'Path("x")'),
            FieldDef("lit", 'Literal["a", 1]', "lit", '"a"'),
            FieldDef("os", "str | None", "optstr", "None"),
            FieldDef("i", "int", "int", "0"),
            FieldDef("b", "bool", "bool", "False"),
            FieldDef("e", "Color", "enum", "Color.RED"),
            FieldDef("t", "tuple[int, ...]", "tint", "()"),
            FieldDef("ft", "tuple[int, str]", "ft", '(0, "")'),
            FieldDef("nc", "str", "str", '""', compare=False),
            FieldDef("ni", "int", "int", "7", init=False),
            FieldDef("_note", "str", "str", '""', compare=False),
        ],
    ),
    ClassDef(
        "Falsy", "Base", [FieldDef("v", "int", "int", "0")],
        extra_body="    def __len__(self) -> int:\n        return 0\n",
    ),
    ClassDef(
        "Uni", "Base",
        [
            FieldDef("one", "Base", "one", None, classes=ANY),
            FieldDef("opt", "Base | None", "opt", "None", classes=ANY),
            FieldDef("un", "LeafA | LeafB | None", "opt", "None", classes=("LeafA", "LeafB")),
            FieldDef("ka", "Base | None", "opt", "None", classes=ANY),
            FieldDef("kb", "Base | None", "opt", "None", classes=ANY),
        ],
        # attributes that are no dataclass fields: a plain property and a class-level constant
        extra_body="    KIND: ClassVar[str] = \"uni\"\n\n    @property\n    def alias(self):\n        return self.one\n",
    ),
    ClassDef(
        "Seq", "Base",
        [
            FieldDef("items", "tuple[Base, ...]", "tuple", "()", classes=ANY),
            FieldDef("pair", "tuple[LeafA, LeafB]", "fixed", None, fixed=(("LeafA",), ("LeafB",))),
        ],
    ),
    ClassDef(
        "Mixed", "Base",
        [
            FieldDef("child", "Base | None", "opt", "None", classes=ANY),
            FieldDef("items", "tuple[Base, ...]", "tuple", "()", classes=ANY),
            FieldDef("v", "int", "int", "0"),
        ],
    ),
    ClassDef("InhMixed", "Mixed", [FieldDef("more", "tuple[Base, ...]", "tuple", "()", classes=ANY)]),
    # a slotted class (the dataclass decorator creates the class object twice)
    ClassDef("SlotLeaf", "Base", [FieldDef("v", "int", "int", "0"), FieldDef("s", "str", "str", '""')], slots=True),
    # classes sharing their child field names with another class, declared in another order / with another shape
    ClassDef("PairAB", "Base", [FieldDef("left", "Base | None", "opt", "None", classes=ANY),
                                FieldDef("right", "Base | None", "opt", "None", classes=ANY)]),
    ClassDef("PairBA", "Base", [FieldDef("right", "Base | None", "opt", "None", classes=ANY),
                                FieldDef("left", "Base | None", "opt", "None", classes=ANY)]),
    ClassDef("MixedRev", "Base", [FieldDef("items", "Base | None", "opt", "None", classes=ANY),
                                  FieldDef("child", "tuple[Base, ...]", "tuple", "()", classes=ANY)]),
    # an abstract node base class (ABCMeta + abstract method) and a concrete implementation
    ClassDef("AbsNode", "Base", [FieldDef("v", "int", "int", "0")], more_bases=("abc.ABC",), abstract=True,
             extra_body="    @abc.abstractmethod\n    def kind(self) -> str:\n        ...\n"),
    ClassDef("AbsImpl", "AbsNode", [FieldDef("kid", "Base | None", "opt", "None", classes=ANY)],
             extra_body="    def kind(self) -> str:\n        return \"impl\"\n"),
    # multiple inheritance: two bases with their own fields and an empty class combining them
    ClassDef("TagA", "Base", [FieldDef("ta", "int", "int", "0")]),
    ClassDef("TagB", "Base", [FieldDef("tb", "str", "str", '""'), FieldDef("kid", "Base | None", "opt", "None", classes=ANY)]),
    ClassDef("Both", "TagA", [], more_bases=("TagB",)),
    # C16: a property whose (de)serialization can be made to raise, and a field name that sorts
    # before the type tag
    ClassDef(
        "BombNode", "Base",
        [
            FieldDef("bomb", "Bomb", "bomb", "Bomb(0)"),
            FieldDef("Kind", "str", "str", '"k"'),
            FieldDef("child", "Base | None", "opt", "None", classes=ANY),
            FieldDef("items", "tuple[Base, ...]", "tuple", "()", classes=ANY),
        ],
        # a user hook adds a key that is no field of the class
        extra_body=("    def __post_serialize__(self, d):\n        d[\"Added\"] = len(self.items)\n"
                    "        return super().__post_serialize__(d)\n"),
    ),
]

BY_NAME: dict[str, ClassDef] = {c.name: c for c in TABLE}
CLASS_NAMES = [c.name for c in TABLE]


def _linearize(name: str) -> list[str]:
    """C3 linearisation restricted to the universe (ASTNode excluded)"""
    if name == "ASTNode":
        return []
    c = BY_NAME[name]
    bases = [b for b in (c.base, *c.more_bases) if b == "ASTNode" or b in BY_NAME]
    seqs = [_linearize(b) for b in bases] + [[b for b in bases if b != "ASTNode"]]
    out = [name]
    seqs = [s for s in seqs if s]
    while seqs:
        for s in seqs:
            head = s[0]
            if not any(head in t[1:] for t in seqs):
                break
        else:  # pragma: no cover
            raise TypeError("inconsistent hierarchy")
        out.append(head)
        seqs = [[x for x in t if x != head] for t in seqs]
        seqs = [t for t in seqs if t]
    return out


def mro_names(name: str) -> list[str]:
    """class names from the class itself up to Base (universe part of the MRO)."""
    return _linearize(name)


def is_subclass(name: str, base: str) -> bool:
    return base == "ASTNode" or base in mro_names(name)


def all_fields(name: str) -> list[FieldDef]:
    """user fields in dataclass order: bases in reverse MRO order, then the class' own fields;
    an override keeps the position of the field it overrides."""
    out: list[FieldDef] = []
    for cn in reversed(mro_names(name)):
        for f in BY_NAME[cn].fields:
            for i, g in enumerate(out):
                if g.name == f.name:
                    out[i] = f
                    break
            else:
                out.append(f)
    return out


def child_fields(name: str) -> list[FieldDef]:
    return [f for f in all_fields(name) if f.is_child]


def prop_fields(name: str) -> list[FieldDef]:
    return [f for f in all_fields(name) if not f.is_child]


def concrete_subclasses(names: tuple[str, ...]) -> list[str]:
    return [c for c in CLASS_NAMES if any(is_subclass(c, n) for n in names)]


HEADER = '''\
import abc
import enum
from dataclasses import dataclass, field
from pathlib import Path
from typing import Any, ClassVar, Literal, NewType, Optional

from mashumaro.types import SerializableType
from pyoak.node import ASTNode
from pyoak.origin import GeneratedCodeOrigin, MemoryTextSource, Origin

# the default origin of a class that declares one of its own ("generated unless told otherwise")
SYNTH_ORIGIN = GeneratedCodeOrigin(MemoryTextSource("synthetic", source_uri="mem://synth"))


def _auto_leaf():
    return LeafA(v=77)


_SERIAL = [0]


def _next_serial():
    _SERIAL[0] += 1
    return _SERIAL[0]


class BombError(Exception):
    pass


class Bomb(SerializableType):
    """a property value whose serialization / deserialization raises while its tag is armed"""

    armed: set = set()
    armed_de: set = set()
    # re-entrancy: while one of these tags is (de)serialized, `nested_call()` is run (the harness puts an
    # option-less library call of its own there and collects what it returns)
    nested: set = set()
    nested_call = None
    nested_results: list = []

    def __init__(self, tag: int) -> None:
        self.tag = tag

    def _serialize(self):
        if self.tag in Bomb.armed:
            raise BombError(f"serialize {self.tag}")
        if self.tag in Bomb.nested and Bomb.nested_call is not None:
            Bomb._run_nested()
        return {"tag": self.tag}

    @classmethod
    def _deserialize(cls, value):
        if value["tag"] in Bomb.armed_de:
            raise BombError(f"deserialize {value['tag']}")
        if value["tag"] in Bomb.nested and Bomb.nested_call is not None:
            Bomb._run_nested()
        return Bomb(value["tag"])

    @staticmethod
    def _run_nested():
        call, Bomb.nested_call = Bomb.nested_call, None  # (one level only)
        try:
            Bomb.nested_results.append(call())
        finally:
            Bomb.nested_call = call

    def __eq__(self, other):
        return isinstance(other, Bomb) and other.tag == self.tag

    def __hash__(self):
        return hash(("Bomb", self.tag))

    def __str__(self):
        return f"Bomb({self.tag})"

    __repr__ = __str__


class Color(enum.Enum):
    RED = "red"
    GREEN = "green"
    BLUE = "blue"


class Prio(enum.IntEnum):
    LOW = 1
    HIGH = 2


class Line(int):
    """a user subclass of int: prints like the number"""


class SKind(str, enum.Enum):
    """an enum with a str mixin: str(member) differs from the member's character data"""

    ADD = "plus"
    SUB = "minus"

'''


def emit_source(perm_seed: int | None = None) -> str:
    rnd = random.Random(perm_seed) if perm_seed is not None else None
    out = [HEADER]
    for c in TABLE:
        chunk_start = len(out)
        if c.pre:
            out.append(c.pre)
        out.append("\n@dataclass(frozen=True" + ("" if c.positional else ", kw_only=True")
                   + (", slots=True, weakref_slot=True" if c.slots else "") + ")\n")
        out.append(f"class {c.name}({', '.join((c.base, *c.more_bases))}):\n")
        flds = list(c.fields)
        if rnd is not None:
            rnd.shuffle(flds)
        body = ""
        for f in flds:
            args = []
            if f.default is not None:
                args.append(f"default={f.default}")
            if not f.compare:
                args.append("compare=False")
            if not f.init:
                args.append("init=False")
            if f.extra_args:
                args.append(f.extra_args)
            if args == [f"default={f.default}"]:
                body += f"    {f.name}: {f.ann} = {f.default}\n"
            elif args:
                body += f"    {f.name}: {f.ann} = field({', '.join(args)})\n"
            else:
                body += f"    {f.name}: {f.ann}\n"
        body += c.extra_body
        out.append(body or "    pass\n")
        if c.local:
            text = "".join(out[chunk_start:])
            del out[chunk_start:]
            indented = "".join(("    " + ln if ln.strip() else ln) for ln in text.splitlines(keepends=True))
            out.append(f"\n\ndef _mk_{c.name}():{indented}\n    return {c.name}\n\n\n{c.name} = _mk_{c.name}()\n")
    out.append(SAME_NAME_TAIL)
    out.append(MARKER_TAIL)
    return "".join(out)


# an abstract marker that node classes are *registered* with (virtual subclasses: isinstance holds, the
# marker is in nobody's MRO)
MARKER_TAIL = '''

class Marker(abc.ABC):
    pass


Marker.register(Mixed)
Marker.register(Uni)
Marker.register(LeafB)
'''
MARKED = ("Mixed", "Uni", "LeafB", "InhMixed")  # registered classes and their subclasses


# two different classes with one simple (and qualified) name in one module, as a class factory called
# twice produces them; not part of the class table (they cannot be told apart by name)
SAME_NAME_TAIL = '''

def _make_same_name():
    @dataclass(frozen=True)
    class SameName(Base):
        v: int = 0

    return SameName


SameNameA = _make_same_name()
SameNameB = _make_same_name()
'''


def load(perm_seed: int | None = None) -> types.ModuleType:
    """exec the universe once per process (class names are global in pyoak.serialize.TYPES)."""
    if MODULE_NAME in sys.modules:
        return sys.modules[MODULE_NAME]
    mod = types.ModuleType(MODULE_NAME)
    mod.__file__ = f"<{MODULE_NAME}>"
    sys.modules[MODULE_NAME] = mod
    src = emit_source(perm_seed)
    mod.__source__ = src  # type: ignore[attr-defined]
    exec(compile(src, mod.__file__, "exec", dont_inherit=True), mod.__dict__)
    return mod


def cls(name: str) -> Any:
    if name == "ASTNode":
        from pyoak.node import ASTNode

        return ASTNode
    return getattr(load(), name)


def warm(order: str) -> None:
    """first use of every class in a chosen order ("bases": table order, bases before subclasses;
    "subs": the reverse). pyoak generates per-class accessors on first use, so the order in which
    the classes of a hierarchy are used first is part of the history every property quantifies over;
    shards alternate between the orders (and no warm-up at all)."""
    if order not in ("bases", "subs"):
        return
    names = CLASS_NAMES if order == "bases" else list(reversed(CLASS_NAMES))
    for name in names:
        if BY_NAME[name].abstract:
            continue
        c = cls(name)
        kw = {}
        if name == "Uni":
            kw["one"] = cls("LeafB")(v=9)
        if name == "Seq":
            kw["pair"] = (cls("LeafA")(v=9), cls("LeafB")(v=9))
        if name == "Fn":
            kw["body"] = cls("CollBlock")()
        n = c(**kw)
        list(n.get_properties())
        list(n.get_child_nodes())
        list(n.get_child_nodes_with_field())
        list(n.iter_child_fields())
