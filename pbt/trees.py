"""Tree specs over the v2 universe: expansion, building, references, strategies.

node spec  := {"c": Class, "p": {field: value spec}, "k": {field: child spec}, "o": origin spec}
child spec := node spec | None | [node spec, ...] | {"$share": n} | {"$twin": n}
value spec := JSON scalar | {"$e": name} | {"$t": [...]} | {"$fs": [...]} | {"$p": "posix/path"}

`$share n` places an *already completed* node object (chosen by n among the type-admissible
ones) at a second position; `$twin n` places a fresh content- and origin-identical rebuild.
The reference functions work on the expanded `ENode` graph and on `dataclasses.fields` plus
the class table of models_v2 — never on pyoak's generated accessors.
"""
from __future__ import annotations

import dataclasses
import enum
from pathlib import Path, PurePath
from typing import Any, Iterator

from pbt import models_v2 as M
from pbt import origins as og

# --------------------------------------------------------------------------- values


class NodeRef:
    """placeholder for "the n-th node built so far" (resolved by Built; a fresh foreign leaf when n is
    odd or nothing has been built yet)"""

    def __init__(self, n: int) -> None:
        self.n = n

    def __repr__(self) -> str:
        return f"NodeRef({self.n})"


def decode_value(v: Any) -> Any:
    if isinstance(v, dict):
        if "$ref" in v:
            return NodeRef(v["$ref"])
        if "$e" in v:
            return getattr(M.load().Color, v["$e"])
        if "$se" in v:
            return getattr(M.load().SKind, v["$se"])
        if "$nan" in v:
            return float("nan")
        if "$d" in v:  # a plain dict, keys in the given order
            return {k: decode_value(x) for k, x in v["$d"]}
        if "$ie" in v:  # an IntEnum member (an int by instance, another type by `type()`)
            return getattr(M.load().Prio, v["$ie"])
        if "$is" in v:  # an instance of a user subclass of int
            return M.load().Line(v["$is"])
        if "$t" in v:
            return tuple(decode_value(x) for x in v["$t"])
        if "$fs" in v:
            return frozenset(decode_value(x) for x in v["$fs"])
        if "$p" in v:
            return Path(v["$p"])
        if "$b" in v:
            return bytes.fromhex(v["$b"])
        if "$bomb" in v:
            return M.load().Bomb(v["$bomb"])
        raise ValueError(v)
    if isinstance(v, list):
        raise ValueError(f"bare list in value spec: {v}")
    return v


def typed_value(v: Any) -> Any:
    """canonical value with its exact type at every nesting level (frozensets unordered)."""
    if v is None:
        return ("none",)
    if isinstance(v, bool):
        return ("bool", v)
    if isinstance(v, enum.Enum) and isinstance(v, int):
        return ("enum", type(v).__name__, v.name)
    if isinstance(v, int):
        return ("int", v) if type(v) is int else ("int-subclass", type(v).__name__, int(v))
    if isinstance(v, float):
        return ("float", repr(v))
    if isinstance(v, enum.Enum):  # before str: an enum with a str mixin is an enum member
        return ("enum", type(v).__name__, v.name)
    if isinstance(v, str):
        return ("str", v)
    if isinstance(v, PurePath):
        return ("path", v.as_posix())
    if isinstance(v, (bytes, bytearray)):
        return ("bytes", bytes(v).hex())
    if isinstance(v, tuple):
        return ("tuple", tuple(typed_value(x) for x in v))
    if isinstance(v, frozenset):
        return ("fs", frozenset(typed_value(x) for x in v))
    if isinstance(v, list):
        return ("list", tuple(typed_value(x) for x in v))
    if isinstance(v, dict):  # (ordered: the order of the keys is part of what a caller sees)
        return ("dict", tuple((k, typed_value(x)) for k, x in v.items()))
    if type(v).__name__ == "Bomb":
        return ("bomb", v.tag)
    if isinstance(v, NodeRef):
        return ("ref", v.n)
    if hasattr(v, "content_id") and hasattr(v, "origin"):
        return ("node-object", id(v))
    return ("other", type(v).__name__, repr(v))


# --------------------------------------------------------------------------- ENode


class ENode:
    __slots__ = ("cls", "props", "kids", "origin", "uid", "det")

    def __init__(self, cls: str, props: dict, kids: dict, origin: list, uid: int, det: bool = False) -> None:
        self.det = det  # detach_self() right after construction (a later twin may take over its id)
        self.cls = cls
        self.props = props  # field -> decoded python value (init props only)
        self.kids = kids  # field -> ENode | None | list[ENode]
        self.origin = origin
        self.uid = uid

    def children(self) -> Iterator[tuple["ENode", str, int | None]]:
        """present children in declaration order (tuple elements left to right)."""
        for f in M.child_fields(self.cls):
            v = self.kids.get(f.name)
            if v is None:
                continue
            if isinstance(v, list):
                for i, c in enumerate(v):
                    yield c, f.name, i
            else:
                yield v, f.name, None

    def __repr__(self) -> str:
        return f"<E{self.uid}:{self.cls}>"


class Expander:
    def __init__(self, allow_share: bool = True) -> None:
        self.allow_share = allow_share
        self.done: list[ENode] = []  # completion (post-) order
        self.n_shared = 0
        self.n_twins = 0
        self._uid = 0

    def _new_uid(self) -> int:
        self._uid += 1
        return self._uid - 1

    def _fallback(self, classes: tuple[str, ...], n: int) -> ENode:
        cn = classes[0]
        if cn == "Base":
            cn = "LeafA"
        e = ENode(cn, {"v": n % 5}, {}, ["no"], self._new_uid())
        self.done.append(e)
        return e

    def _copy(self, e: ENode) -> ENode:
        kids: dict = {}
        for k, v in e.kids.items():
            if v is None:
                kids[k] = None
            elif isinstance(v, list):
                kids[k] = [self._copy(c) for c in v]
            else:
                kids[k] = self._copy(v)
        c = ENode(e.cls, dict(e.props), kids, e.origin, self._new_uid())
        self.done.append(c)
        return c

    def slot(self, spec: Any, classes: tuple[str, ...]) -> ENode:
        if "$share" in spec or "$twin" in spec:
            n = spec.get("$share", spec.get("$twin"))
            cands = [d for d in self.done if any(M.is_subclass(d.cls, c) for c in classes)]
            if not cands:
                return self._fallback(classes, n)
            target = cands[-1] if n == -1 else cands[n % len(cands)]
            if "$share" in spec and self.allow_share:
                self.n_shared += 1
                return target
            self.n_twins += 1
            c = self._copy(target)
            if "o" in spec:
                c.origin = spec["o"]  # content-equal twin carrying another origin
            if "do" in spec:
                # twin that is content-equal and carries the same own origin, but holds a grandchild of
                # another origin: same id as the original (an id covers the children's content ids and
                # origins, not more), yet not `==` to it
                for k, _, _ in c.children():
                    for g, _, _ in k.children():
                        g.origin = spec["do"]
                        break
                    break
            if "nc" in spec and any(f.name == "nc" for f in M.prop_fields(c.cls)):
                c.props["nc"] = spec["nc"]  # twin that differs in a non-comparable property only
            return c
        return self.node(spec)

    def node(self, spec: dict) -> ENode:
        cn = spec["c"]
        props = {k: decode_value(v) for k, v in spec.get("p", {}).items()}
        kids: dict = {}
        ks = spec.get("k", {})
        for f in M.child_fields(cn):
            v = ks.get(f.name)
            if not f.init:
                # no constructor argument: the class's factory makes the child (mirrored here)
                auto = ENode("LeafA", {"v": 77}, {}, ["no"], self._new_uid())
                kids[f.name] = auto  # (not in `done`: it cannot be shared or rebuilt elsewhere)
                continue
            if f.kind in ("one", "opt"):
                kids[f.name] = None if v is None else self.slot(v, f.classes)
            elif f.kind == "tuple":
                kids[f.name] = [self.slot(x, f.classes) for x in (v or [])]
            else:  # fixed
                kids[f.name] = [self.slot(x, f.fixed[i]) for i, x in enumerate(v)]
        e = ENode(cn, props, kids, spec.get("o", ["no"]), self._new_uid(), bool(spec.get("det")))
        self.done.append(e)
        return e


def expand(spec: dict, allow_share: bool = True) -> tuple[ENode, Expander]:
    ex = Expander(allow_share)
    root = ex.node(spec)
    return root, ex


# --------------------------------------------------------------------------- references


def prop_value(e: ENode, f: M.FieldDef) -> Any:
    """the value the live node will hold for a property field."""
    if f.init and f.name in e.props:
        return e.props[f.name]
    return eval(f.default, {"Color": M.load().Color, "Path": Path, "frozenset": frozenset,  # noqa: S307
                            "Bomb": M.load().Bomb, "SKind": M.load().SKind})


def content_key(e: ENode, memo: dict | None = None) -> Any:
    if memo is None:
        memo = {}
    if e.uid in memo:
        return memo[e.uid]
    props = tuple(
        sorted((f.name, typed_value(prop_value(e, f))) for f in M.prop_fields(e.cls) if f.compare)
    )
    kids = tuple(sorted(((fn, -1 if i is None else i, content_key(c, memo)) for c, fn, i in e.children()),
                        key=lambda t: (t[0], t[1])))
    key = (e.cls, props, kids)
    memo[e.uid] = key
    return key


def positions(e: ENode) -> list[tuple[ENode, ENode, str, int | None]]:
    """pre-order list of all proper-descendant positions (node, parent, field, index)."""
    out: list = []

    def rec(p: ENode) -> None:
        for c, fn, i in p.children():
            out.append((c, p, fn, i))
            rec(c)

    rec(e)
    return out


def nodes_preorder(e: ENode) -> list[ENode]:
    return [e] + [p[0] for p in positions(e)]


def depth_of_tree(e: ENode) -> int:
    return 1 + max((depth_of_tree(c) for c, _, _ in e.children()), default=0)


# --------------------------------------------------------------------------- building


class Built:
    def __init__(self, root_e: ENode, sources: list, fresh_origins: bool = False) -> None:
        self.sources = sources
        self.fresh_origins = fresh_origins  # every origin gets its own (equal but distinct) source objects
        self.live: dict[int, Any] = {}
        self.foreign: list[Any] = []  # nodes referenced from properties only
        self.root_e = root_e
        self.root = self._build(root_e)

    def _build(self, e: ENode) -> Any:
        if e.uid in self.live:
            return self.live[e.uid]
        kw: dict = {}
        autos = []
        for f in M.child_fields(e.cls):
            v = e.kids.get(f.name)
            if not f.init:
                autos.append(f)
                continue
            if v is None:
                if f.kind in ("one", "opt"):
                    kw[f.name] = None
                continue
            if isinstance(v, list):
                kw[f.name] = tuple(self._build(c) for c in v)
            else:
                kw[f.name] = self._build(v)
        for k, v in e.props.items():
            kw[k] = self._resolve(v)
        node = M.cls(e.cls)(origin=og.build_origin(e.origin, self.sources, self.fresh_origins), **kw)
        for f in autos:
            self.live[e.kids[f.name].uid] = getattr(node, f.name)
        if e.det:
            node.detach_self()
        self.live[e.uid] = node
        return node

    def _resolve(self, v: Any) -> Any:
        if isinstance(v, NodeRef):
            built = list(self.live.values())
            if v.n % 2 or not built:
                f = M.cls("LeafA")(v=600 + v.n % 7)
                self.foreign.append(f)
                return f
            return built[(v.n // 2) % len(built)]
        if isinstance(v, tuple) and any(isinstance(x, NodeRef) for x in v):
            return tuple(self._resolve(x) for x in v)
        return v

    def of(self, e: ENode) -> Any:
        return self.live[e.uid]


def build(spec: dict, allow_share: bool = True, sources: list | None = None) -> tuple[Built, ENode, Expander]:
    root_e, ex = expand(spec, allow_share)
    b = Built(root_e, sources if sources is not None else og.make_sources())
    return b, root_e, ex


# ------------------------------------------------------------- live-object reflection (own walk)


def live_children(node: Any) -> list[tuple[Any, str, int | None]]:
    """children of a live node, found with dataclasses.fields + isinstance (not pyoak accessors)."""
    from pyoak.node import ASTNode

    out = []
    cn = type(node).__name__
    value_fields = {f.name for f in M.prop_fields(cn)} if cn in M.BY_NAME and type(node) is M.cls(cn) else set()
    for f in dataclasses.fields(node):
        if f.name in value_fields:
            continue  # a property that happens to hold a node is a value, not a child
        v = getattr(node, f.name)
        if isinstance(v, ASTNode):
            out.append((v, f.name, None))
        elif isinstance(v, tuple) and v and all(isinstance(x, ASTNode) for x in v):
            out.extend((x, f.name, i) for i, x in enumerate(v))
    return out


def live_nodes(node: Any) -> list[Any]:
    out = [node]
    for c, _, _ in live_children(node):
        out.extend(live_nodes(c))
    return out


def live_key(node: Any, with_origin: bool = False, with_noncompare: bool = False, sources: list | None = None) -> Any:
    """structural key of a live node computed from dataclass fields."""
    from pyoak.node import ASTNode
    from pyoak.origin import Origin

    props = []
    kids = []
    for f in dataclasses.fields(node):
        if f.name in ("id", "content_id"):
            continue
        v = getattr(node, f.name)
        if f.name == "origin" and isinstance(v, Origin):
            continue
        if isinstance(v, ASTNode):
            kids.append((f.name, -1, live_key(v, with_origin, with_noncompare, sources)))
        elif isinstance(v, tuple) and v and all(isinstance(x, ASTNode) for x in v):
            kids.extend((f.name, i, live_key(x, with_origin, with_noncompare, sources)) for i, x in enumerate(v))
        elif isinstance(v, tuple) and not v and _is_child_tuple_field(type(node).__name__, f.name):
            continue
        elif v is None and _is_child_field(type(node).__name__, f.name):
            continue
        else:
            if f.compare or with_noncompare:
                props.append((f.name, typed_value(v)))
    key: tuple = (type(node).__name__, tuple(sorted(props)), tuple(sorted(kids, key=lambda t: (t[0], t[1]))))
    if with_origin:
        key = key + (tuple(map(_freeze, og.origin_spec_of(node.origin, sources or []))),)
    return key


def _freeze(x: Any) -> Any:
    return tuple(_freeze(y) for y in x) if isinstance(x, list) else x


def _is_child_field(cn: str, fn: str) -> bool:
    if cn not in M.BY_NAME:
        return False
    return any(f.name == fn for f in M.child_fields(cn))


def _is_child_tuple_field(cn: str, fn: str) -> bool:
    if cn not in M.BY_NAME:
        return False
    return any(f.name == fn and f.kind in ("tuple", "fixed") for f in M.child_fields(cn))


# --------------------------------------------------------------------------- strategies

PLAIN_STRS = ["", "a", "b", "ab", "abc", "x y", "1", "0", "None", "True", "x\\y"]


def st_value(kind: str, strs: Any = None):
    from hypothesis import strategies as st

    small = st.integers(-2, 3)
    ints = st.one_of(small, small, st.sampled_from([10, 16, 255, -(2**63), 2**63 - 1, 2**40]))
    s = strs if strs is not None else st.sampled_from(PLAIN_STRS)
    if kind == "int":
        return ints
    if kind == "bool":
        return st.booleans()
    if kind == "optint":
        return st.one_of(st.none(), small)
    if kind == "enum":
        return st.sampled_from(["RED", "GREEN", "BLUE"]).map(lambda n: {"$e": n})
    if kind == "tint":
        return st.lists(small, max_size=3).map(lambda xs: {"$t": xs})
    if kind == "ft":
        return st.tuples(small, s).map(lambda t: {"$t": [t[0], t[1]]})
    if kind == "fsint":
        return st.lists(st.sampled_from([0, 1, 8, 16, 24, 32, -1]), max_size=4, unique=True).map(
            lambda xs: {"$fs": xs})
    if kind == "fsstr":
        return st.lists(st.sampled_from(["a", "b", "c", "aa", "zz", ""]), max_size=4, unique=True).map(
            lambda xs: {"$fs": xs})
    if kind == "fsfs":
        inner = st.lists(st.sampled_from([1, 18, 2, 35, 0]), max_size=2, unique=True).map(lambda xs: {"$fs": xs})
        return st.lists(inner, max_size=3, unique_by=lambda d: tuple(sorted(d["$fs"]))).map(lambda xs: {"$fs": xs})
    if kind == "tfs":
        inner = st.lists(st.sampled_from([0, 8, 16, 24, 1]), max_size=3, unique=True).map(lambda xs: {"$fs": xs})
        return st.lists(inner, max_size=2).map(lambda xs: {"$t": xs})
    if kind == "senum":
        return st.sampled_from(["ADD", "SUB"]).map(lambda n: {"$se": n})
    if kind == "anydict":
        # a plain dict (keys in the drawn order, nested one level) in an `Any`-typed property
        keys = st.lists(st.sampled_from(["zeta", "alpha", "mid", "b", "a", "Z"]), max_size=4, unique=True)
        flat = keys.flatmap(lambda ks: st.tuples(*[small for _ in ks]).map(lambda vs: [[k, v] for k, v in zip(ks, vs)]))
        return st.one_of(st.none(), flat.map(lambda ps: {"$d": ps}),
                         st.tuples(flat, flat).map(lambda t: {"$d": [["outer", {"$d": t[0]}], *t[1]]}))
    if kind == "bytes":
        # invalid UTF-8 next to the text of its own escape, embedded quotes and separators
        return st.sampled_from([b"", b"a", b"\xff", b"\\xff", b"\x00", b"\xc3\xa9", b"'", b"\\'", b")", b"a\xffb",
                                b"a\\xffb", b"\xe9", b"\\xe9"]).map(lambda x: {"$b": x.hex()})
    if kind == "str":
        return s
    if kind == "optstr":
        return st.one_of(st.none(), s)
    if kind == "float":
        return st.one_of(
            st.sampled_from([0.0, 1.5, -2.25, 1e16, 5e-324, 1e-7, 3.0, -0.0, -0.0, -0.0, 1e300, -1.7976931348623157e308]),  # (-0.0 == the default 0.0)
            st.floats(allow_nan=False, allow_infinity=False),
        )
    if kind == "path":
        return st.sampled_from(["x", "a/b", "/abs/p.txt", "rel/../q", "."]).map(lambda p: {"$p": p})
    if kind == "lit":
        return st.sampled_from(["a", 1])
    if kind == "bomb":
        return st.integers(0, 5).map(lambda n: {"$bomb": n})
    if kind == "anyref":
        return st.none()  # node-valued only where a generator asks for it (TreeGen.refs)
    raise ValueError(kind)


class TreeGen:
    """Configurable strategy factory for tree specs."""

    def __init__(
        self,
        *,
        leaves: int = 12,
        width: int = 4,
        share: bool = True,
        twins: bool = True,
        origin_rate: float = 0.3,
        falsy: bool = True,
        servals: bool = False,
        frozensets: bool = True,
        strs: Any = None,
        wide: bool = True,
        origin_index: int = 30,
        extra_leaves: tuple[str, ...] = (),
        detach_rate: float = 0.0,
        refs: bool = False,
        rev_sources: bool = False,
        bombs: bool = False,
        stale_pairs: bool = False,
        noinit: bool = False,
        nan: bool = False,
    ) -> None:
        self.noinit = noinit
        self.nan = nan
        self.bombs = bombs
        self.stale_pairs = stale_pairs
        self.extra_leaves = extra_leaves
        self.detach_rate = detach_rate
        self.refs = refs
        self.rev_sources = rev_sources
        self.leaves = leaves
        self.width = width
        self.share = share
        self.twins = twins
        self.origin_rate = origin_rate
        self.falsy = falsy
        self.servals = servals
        self.frozensets = frozensets
        self.strs = strs
        self.wide = wide
        self.origin_index = origin_index

    # --- pieces
    def origin(self):
        from hypothesis import strategies as st

        if self.origin_rate <= 0:
            return st.just(["no"])
        k = max(1, round(1 / self.origin_rate) - 1)
        return st.one_of(*([st.just(["no"])] * k), og.st_origin(self.origin_index, allow_no=False, rev=self.rev_sources))

    def props(self, cn: str):
        from hypothesis import strategies as st

        d = {}
        for f in M.prop_fields(cn):
            if not f.init:
                continue
            if not self.frozensets and f.kind in ("fsint", "fsstr", "fsfs", "tfs"):
                continue
            d[f.name] = st_value(f.kind, self.strs)
            if self.nan and f.kind == "float":
                d[f.name] = st.one_of(d[f.name], st.just({"$nan": 1}))  # (a value that is not equal to itself)
        # optional: a property may be left at its default
        return st.fixed_dictionaries({}, optional=d) if d else st.just({})

    def leaf_of(self, cn: str):
        from hypothesis import strategies as st

        d = {"c": st.just(cn), "p": self.props(cn), "o": self.origin()}
        if self.detach_rate > 0:
            k = max(1, round(1 / self.detach_rate) - 1)
            d["det"] = st.sampled_from([False] * k + [True])
        return st.fixed_dictionaries(d)

    def leaf(self):
        from hypothesis import strategies as st

        names = ["LeafA", "LeafA", "LeafB", "SubLeafA", "SubSubLeafA", "Strs", "Vals", "TagA", "SlotLeaf", "Checked", "EqLeaf", "LocalLeaf", "Synth"]
        if self.falsy:
            names.append("Falsy")
        if self.servals:
            names.append("SerVals")
        names.extend(self.extra_leaves)
        opts = [self.leaf_of(n) for n in names]
        # childless inner node
        opts.append(st.fixed_dictionaries({"c": st.just("Mixed"), "p": self.props("Mixed"), "o": self.origin()}))
        return st.one_of(*opts)

    def ref(self):
        from hypothesis import strategies as st

        opts = []
        if self.share:
            opts.append(st.integers(0, 30).map(lambda n: {"$share": n}))
        if self.twins:
            opts.append(st.integers(0, 30).map(lambda n: {"$twin": n}))
            if self.origin_rate > 0:
                opts.append(st.tuples(st.integers(0, 30), og.st_simple_origin(self.origin_index)).map(
                    lambda t: {"$twin": t[0], "o": t[1]}))
            if self.detach_rate > 0:
                opts.append(st.tuples(st.integers(0, 30), st.sampled_from(["", "t1", "t2"])).map(
                    lambda t: {"$twin": t[0], "nc": t[1]}))
        return st.one_of(*opts) if opts else None

    def slot(self, children):
        """a Base-typed slot: a subtree, or a reference to an earlier node."""
        from hypothesis import strategies as st

        r = self.ref()
        if r is None:
            return children
        return st.one_of(children, children, children, children, r)

    def leafab(self, which: tuple[str, ...]):
        from hypothesis import strategies as st

        return st.one_of(*[self.leaf_of(n) for n in M.concrete_subclasses(which)])

    def inner(self, children):
        from hypothesis import strategies as st

        slot = self.slot(children)
        single = st.one_of(slot, slot, slot, self.leaf_of("Falsy")) if self.falsy else slot
        opt = st.one_of(st.none(), single)
        items = st.lists(slot, max_size=self.width)
        uni = st.fixed_dictionaries(
            {
                "c": st.just("Uni"),
                "o": self.origin(),
                "k": st.fixed_dictionaries(
                    {"one": single, "opt": opt, "un": st.one_of(st.none(), self.leafab(("LeafA", "LeafB")), self.leaf_of("LeafB")),
                     "ka": opt, "kb": opt}
                ),
            }
        )
        seq = st.fixed_dictionaries(
            {
                "c": st.just("Seq"),
                "o": self.origin(),
                "k": st.fixed_dictionaries(
                    {"items": items,
                     "pair": st.tuples(self.leafab(("LeafA",)), self.leaf_of("LeafB")).map(list)}
                ),
            }
        )
        mixed = st.fixed_dictionaries(
            {
                "c": st.just("Mixed"),
                "o": self.origin(),
                "p": self.props("Mixed"),
                "k": st.fixed_dictionaries({"child": opt, "items": items}),
            }
        )
        inh = st.fixed_dictionaries(
            {
                "c": st.just("InhMixed"),
                "o": self.origin(),
                "p": self.props("InhMixed"),
                "k": st.fixed_dictionaries({"child": opt, "items": items, "more": items}),
            }
        )
        opts = [uni, seq, mixed, inh]
        for cn in ("PairAB", "PairBA"):  # same child field names, other declaration order
            opts.append(st.fixed_dictionaries({"c": st.just(cn), "o": self.origin(),
                                               "k": st.fixed_dictionaries({"left": opt, "right": opt})}))
        opts.append(st.fixed_dictionaries({"c": st.just("MixedRev"), "o": self.origin(),
                                           "k": st.fixed_dictionaries({"items": opt, "child": items})}))
        opts.append(st.fixed_dictionaries({"c": st.just("AbsImpl"), "o": self.origin(), "p": self.props("AbsImpl"),
                                           "k": st.fixed_dictionaries({"kid": opt})}))
        for cn in ("TagB", "Both", "Both"):  # multiple inheritance: fields from two bases
            opts.append(st.fixed_dictionaries({"c": st.just(cn), "o": self.origin(), "p": self.props(cn),
                                               "k": st.fixed_dictionaries({"kid": opt})}))
        opts.append(st.fixed_dictionaries({"c": st.just("LocalBox"), "o": self.origin(), "k": st.fixed_dictionaries({"kid": opt})}))
        opts.append(st.fixed_dictionaries({"c": st.just("Kids"), "o": self.origin(),
                                           "k": st.fixed_dictionaries({"header": opt, "children": items, "footer": opt})}))
        opts.append(st.fixed_dictionaries({"c": st.just("KwFirst"), "o": self.origin(), "p": self.props("KwFirst"),
                                           "k": st.fixed_dictionaries({"late": opt, "early": opt})}))
        odd = st.fixed_dictionaries({"c": st.just("Odd"), "o": self.origin(),
                                     "k": st.fixed_dictionaries({"self": opt, "node": opt, "arg": opt, "args": items, "o": opt, "i": opt})})
        opts += [odd, odd.map(dict)]
        cb = st.fixed_dictionaries({"c": st.just("CollBlock"), "o": self.origin(),
                                    "k": st.fixed_dictionaries({"stmts": items, "result": opt})})
        fn = st.fixed_dictionaries({"c": st.just("Fn"), "o": self.origin(),
                                    "k": st.fixed_dictionaries({"body": cb, "alt": st.one_of(st.none(), cb)})})
        opts += [fn, cb]
        nck = st.fixed_dictionaries({"c": st.just("NcKids"), "o": self.origin(),
                                     "k": st.fixed_dictionaries({"kid": opt, "trivia": items, "note": opt})})
        opts += [nck]
        la = st.one_of(self.leaf_of("LeafA"), self.leaf_of("SubLeafA"))
        ntbox = st.fixed_dictionaries({"c": st.just("NtBox"), "o": self.origin(),
                                       "k": st.fixed_dictionaries({"kids": st.lists(la, max_size=3), "one": st.one_of(st.none(), la)})})
        opts += [ntbox, ntbox.map(dict)]
        if self.noinit:
            ni = st.fixed_dictionaries({"c": st.just("NoInit"), "o": self.origin(),
                                        "k": st.fixed_dictionaries({"kid": opt, "last": opt})})
            opts += [ni, ni.map(dict)]
        if self.bombs:
            bomb = st.fixed_dictionaries(
                {"c": st.just("BombNode"), "o": self.origin(), "p": self.props("BombNode"),
                 "k": st.fixed_dictionaries({"child": opt, "items": items})})
            opts += [bomb, bomb.map(dict), bomb.map(lambda d: dict(d))]  # (distinct objects: one_of drops repeated ones)
        if self.refs:
            ref = st.integers(0, 40).map(lambda n: {"$ref": n})
            target = st.one_of(st.none(), ref, ref, st.lists(ref, min_size=1, max_size=3).map(lambda xs: {"$t": xs}))
            r = st.fixed_dictionaries({"c": st.just("Ref"), "o": self.origin(), "p": st.fixed_dictionaries({"target": target}),
                                       "k": st.fixed_dictionaries({"kid": opt})})
            opts += [r, r]
        if self.detach_rate > 0:
            # a detached leaf directly followed by a twin that takes over its id and differs
            # only in a non-comparable property
            det_leaf = self.leaf_of("Vals").map(lambda d: {**d, "det": True})
            pair = st.tuples(det_leaf, st.sampled_from(["", "second"]), st.lists(slot, max_size=2)).map(
                lambda t: {"c": "Mixed", "o": ["no"], "p": {},
                           "k": {"child": None, "items": [t[0], {"$twin": -1, "nc": t[1]}, *t[2]]}})
            opts.append(pair)
        if self.stale_pairs:
            # a detached inner node next to its successor of the same id that is not equal to it (the
            # id covers the children's content only, `==` their origins too)
            lf = st.fixed_dictionaries({"c": st.just("LeafA"), "p": self.props("LeafA"),
                                        "o": og.st_simple_origin(self.origin_index)})
            other = lambda o, d: d if d != o else (["gen", 3] if o != ["gen", 3] else ["gen", 2])  # noqa: E731
            stale = st.tuples(lf, og.st_simple_origin(self.origin_index), st.lists(slot, max_size=2)).map(
                lambda t: {"c": "Mixed", "o": ["no"], "p": {},
                           "k": {"child": None, "items": [
                               {"c": "Mixed", "o": ["no"], "p": {}, "det": True,
                                "k": {"child": {"c": "Mixed", "o": ["no"], "p": {}, "k": {"child": t[0], "items": []}},
                                      "items": []}},
                               {"$twin": -1, "do": other(t[0]["o"], t[1])}, *t[2]]}})
            opts += [stale, stale]
        if self.wide:
            cheap = st.one_of(self.leaf_of("LeafA"), self.leaf_of("LeafB"), self.leaf_of("SubLeafA"))
            wide = st.fixed_dictionaries(
                {
                    "c": st.just("Mixed"),
                    "o": self.origin(),
                    "p": self.props("Mixed"),
                    "k": st.fixed_dictionaries(
                        {"child": st.none(),
                         "items": st.tuples(st.lists(cheap, min_size=11, max_size=14), st.one_of(st.none(), slot))
                         .map(lambda t: t[0] if t[1] is None else t[0][:5] + [t[1]] + t[0][5:])}
                    ),
                }
            )
            opts.append(wide)
        return st.one_of(*opts)

    def tree(self):
        from hypothesis import strategies as st

        return st.recursive(self.leaf(), self.inner, max_leaves=self.leaves)

    def inner_tree(self):
        """a tree whose root is an inner node (has child fields)."""
        return self.inner(self.tree())


# ------------------------------------------------------------------ very deep, narrow trees


def deep_depth(factor: int = 2) -> int:
    """a depth safely beyond the interpreter's recursion limit (a library walk that recurses once
    per level cannot finish on it)"""
    import sys

    return sys.getrecursionlimit() * factor + 37


def build_chain(depth: int, shape: str, sources: list, bottom_origin: list | None = None) -> list[Any]:
    """a chain of `depth` single-child nodes over a leaf, built iteratively bottom-up; returns the
    nodes top to bottom (the last one is the leaf). shapes: one (Uni.one), items (Mixed.items[0]),
    child (Mixed.child), mixed (alternating)."""
    node = M.cls("LeafA")(v=1, origin=og.build_origin(bottom_origin or ["no"], sources))
    out = [node]
    for k in range(depth):
        sh = shape if shape != "mixed" else ("one", "items", "child")[k % 3]
        if sh == "one":
            node = M.cls("Uni")(one=node)
        elif sh == "items":
            node = M.cls("Mixed")(child=None, items=(node,), v=k % 2)
        else:
            node = M.cls("Mixed")(child=node, v=k % 3)
        out.append(node)
    out.reverse()
    return out


def chain_positions(nodes: list[Any]) -> list[tuple]:
    """(node, parent, field, index) of every proper descendant, top to bottom"""
    out = []
    for p, c in zip(nodes, nodes[1:]):
        cn = type(p).__name__
        if cn == "Uni":
            out.append((c, p, "one", None))
        elif p.child is c:
            out.append((c, p, "child", None))
        else:
            out.append((c, p, "items", 0))
    return out
