"""Common runtime for all property checks.

A *case* is plain JSON-able data: {"prop": "C15", "part": "<part name>", "data": <spec>}.
A property module exposes

    PROP   = "Cxx"
    RULE   = "<how cases are generated and what makes one non-trivial>"
    ASSUMPTIONS = [...]
    PARTS  = [Part(name, strategy|None, enumerate|None, check, quick=N, thorough=M), ...]
    FLOORS = {"label": min_fraction_of_part_cases, ...}      (optional)

`check(data, lab)` evaluates the oracle on one case and raises `Violation` when the
property is broken. Everything random comes from Hypothesis; a run is a pure function
of (working tree, tier, VERIF_SEED, shard).
"""
from __future__ import annotations

import gc
import hashlib
import json
import os
import signal
import sys
import threading
import time
import traceback
from collections import Counter
from dataclasses import dataclass, field
from typing import Any, Callable, Iterable

VERIF_DIR = os.path.dirname(os.path.dirname(os.path.abspath(__file__)))
REPO_DIR = os.environ.get("VERIF_REPO", "/repo")
REPO_SRC = os.path.join(REPO_DIR, "src")


class FalsyCallable:
    """a predicate object that is falsy in a boolean context (like a callable collection that is
    empty): whether a predicate was *given* is a question of `is None`, not of truthiness"""

    def __init__(self, fn: Any) -> None:
        self.fn = fn

    def __call__(self, *a: Any) -> Any:
        return self.fn(*a)

    def __bool__(self) -> bool:
        return False


class Violation(Exception):
    """The property is broken on this case."""

    def __init__(self, clause: str, detail: str = "", override: tuple | None = None) -> None:
        super().__init__(f"{clause}: {detail}")
        self.clause = clause
        self.detail = detail
        # (part name, data): the failing case is not the generated one but this explicit case
        # (used when a failure involves state accumulated over earlier cases of the run)
        self.override = override


class HarnessError(Exception):
    """The harness itself misbehaved (never reported as a violation)."""


def require(cond: bool, clause: str, detail: Any = "") -> None:
    if not cond:
        raise Violation(clause, detail if isinstance(detail, str) else repr(detail))


class Labels:
    """Per-case classification."""

    __slots__ = ("tags", "nontrivial", "excluded", "sample_class", "counts")

    def __init__(self) -> None:
        self.counts: dict[str, int] = {}
        self.tags: set[str] = set()
        self.nontrivial = False
        self.excluded: list[str] = []
        self.sample_class: str | None = None

    def tag(self, *names: str) -> None:
        self.tags.update(names)

    def tag_if(self, cond: bool, name: str) -> None:
        if cond:
            self.tags.add(name)

    def count(self, name: str, k: int = 1) -> None:
        self.counts[name] = self.counts.get(name, 0) + k


@dataclass
class Part:
    name: str
    check: Callable[[Any, Labels], None]
    strategy: Callable[["Ctx"], Any] | None = None  # -> hypothesis strategy of data
    enumerate: Callable[["Ctx"], Iterable[Any]] | None = None  # finite enumeration
    quick: int = 200
    thorough: int = 20000  # total over all shards (like quick)
    custom: Callable[["Ctx", Any, "Part"], None] | None = None  # runs its own campaign (e.g. atheris)
    shard_enumeration: bool = True  # enumerations are split i % nshards == shard
    exhaustive_note: str = ""


@dataclass
class Ctx:
    prop: str
    tier: str
    seed: int
    shard: int = 0
    nshards: int = 1

    @property
    def thorough(self) -> bool:
        return self.tier == "thorough"

    def pick(self, quick: Any, thorough: Any) -> Any:
        return thorough if self.thorough else quick


@dataclass
class Stats:
    evaluations: int = 0
    labels: Counter = field(default_factory=Counter)
    part_counts: Counter = field(default_factory=Counter)
    nontrivial: set = field(default_factory=set)
    samples: dict = field(default_factory=dict)
    excluded: Counter = field(default_factory=Counter)
    exhaustive_parts: dict = field(default_factory=dict)

    def to_json(self) -> dict:
        return {
            "evaluations": self.evaluations,
            "labels": dict(self.labels),
            "part_counts": dict(self.part_counts),
            "nontrivial": sorted(self.nontrivial),
            "samples": self.samples,
            "excluded": dict(self.excluded),
            "exhaustive_parts": self.exhaustive_parts,
        }

    def merge_json(self, d: dict) -> None:
        self.evaluations += d["evaluations"]
        self.labels.update(d["labels"])
        self.part_counts.update(d["part_counts"])
        self.nontrivial.update(d["nontrivial"])
        for k, v in d["samples"].items():
            self.samples.setdefault(k, v)
        self.excluded.update(d["excluded"])
        for k, v in d["exhaustive_parts"].items():
            if k in self.exhaustive_parts:
                self.exhaustive_parts[k]["cases"] += v["cases"]
            else:
                self.exhaustive_parts[k] = dict(v)


def canonical(obj: Any) -> str:
    return json.dumps(obj, sort_keys=True, separators=(",", ":"), default=_json_default)


def _json_default(o: Any) -> Any:
    if isinstance(o, (set, frozenset)):
        return sorted(o)
    if isinstance(o, tuple):
        return list(o)
    return repr(o)


def case_hash(obj: Any) -> str:
    return hashlib.sha1(canonical(obj).encode("utf-8", "surrogatepass")).hexdigest()[:16]


# ---------------------------------------------------------------------------
# Global state of the code under test
# ---------------------------------------------------------------------------

_DEFAULTS: dict[str, Any] = {}


def reset_globals(clear_match_caches: bool = True) -> None:
    """Reset every piece of module-level state of pyoak the properties can observe."""
    from pyoak import config
    from pyoak.node import NODE_REGISTRY
    from pyoak.origin import Source

    if not _DEFAULTS:
        _DEFAULTS.update(
            TRACE_LOGGING=False, ID_DIGEST_SIZE=8, RUNTIME_TYPE_CHECK=False, CODEGEN_DEBUG=False
        )
    for k, v in _DEFAULTS.items():
        setattr(config, k, v)
    NODE_REGISTRY.clear()
    Source.clear_registry()
    legacy = sys.modules.get("pyoak.legacy.node")
    if legacy is not None:
        legacy.AwareASTNode._nodes.clear()
        legacy.TRACE_LOGGING = False
    if clear_match_caches:
        mx = sys.modules.get("pyoak.match.xpath")
        if mx is not None:
            mx._AST_XPATH_CACHE.clear()
        mp = sys.modules.get("pyoak.match.pattern")
        if mp is not None:
            mp._MATCHER_CACHE.clear()
        lmx = sys.modules.get("pyoak.legacy.match.xpath")
        if lmx is not None and hasattr(lmx, "_AST_XPATH_CACHE"):
            lmx._AST_XPATH_CACHE.clear()


_GENERATED_ACCESSORS = {"get_child_nodes", "get_child_nodes_with_field", "iter_child_fields", "get_properties"}


def from_library(exc: BaseException) -> bool:
    """True if the exception's traceback passes through the code under test."""
    tb = exc.__traceback__
    while tb is not None:
        fn = tb.tb_frame.f_code.co_filename
        if fn.startswith(REPO_SRC):
            return True
        if fn == "<string>" and tb.tb_frame.f_code.co_name in _GENERATED_ACCESSORS:
            return True  # per-class accessors the library generates with exec
        tb = tb.tb_next
    return False


def short_tb(exc: BaseException, limit: int = 6) -> str:
    frames = traceback.extract_tb(exc.__traceback__)[-limit:]
    loc = " <- ".join(
        f"{os.path.basename(f.filename)}:{f.lineno}:{f.name}" for f in reversed(frames)
    )
    return f"{type(exc).__name__}: {exc} [{loc}]"


# ---------------------------------------------------------------------------
# Evaluating one case
# ---------------------------------------------------------------------------


class CaseTimeout(BaseException):
    """raised by the per-case alarm inside a case that runs far longer than any case of the unchanged
    tree (a BaseException, so that `except Exception` in the library cannot swallow it)."""


def _case_limit_s(tier: str) -> float:
    return float(os.environ.get("VERIF_CASE_TIMEOUT_S", "") or (300 if tier == "thorough" else 120))


def _on_alarm(signum, frame):  # noqa: ANN001, ARG001
    raise CaseTimeout()


class CaseRunner:
    def __init__(self, ctx: Ctx, module: Any, stats: Stats) -> None:
        self.ctx = ctx
        self.module = module
        self.stats = stats
        self.clear_caches = getattr(module, "CLEAR_MATCH_CACHES", True)
        self.failure: dict | None = None  # smallest failing case so far
        self.failures_seen = 0
        self.no_shrink = False
        self.first_failure: dict | None = None
        self.warm = "none"  # first-use order of the universe's classes in this process (part of the history)
        self.history: list = []  # every counted case of the current part, in execution order
        self.history_all: list = []  # [part name, case] of every counted case of the shard so far (all parts)

    def run_case(self, part: Part, data: Any, count: bool = True) -> None:
        """Evaluate; raises Violation on failure (after recording it)."""
        lab = Labels()
        reset_globals(self.clear_caches)
        apply_case_config(data)
        if count:
            self.history.append(data)
            if self.first_failure is None:
                self.history_all.append([part.name, data])
        armed = False
        if threading.current_thread() is threading.main_thread():
            signal.signal(signal.SIGALRM, _on_alarm)
            signal.setitimer(signal.ITIMER_REAL, _case_limit_s(self.ctx.tier))
            armed = True
        try:
            part.check(data, lab)
            lab.tag_if(isinstance(data, dict) and bool(data.get("trace")), "trace-logging")
        except CaseTimeout:
            # a time budget hit is inconclusive, never a violation: the case is dropped (and counted),
            # the search goes on, so that a code change that makes one operation spin cannot keep the
            # check from reporting what its other cases find
            self.stats.labels[f"{part.name}:CASE-TIMEOUT"] += 1
            return
        except Violation as v:
            if v.override is not None:
                self.no_shrink = True
                opart = next(p for p in self.module.PARTS if p.name == v.override[0])
                self._record_failure(opart, v.override[1], v.clause, v.detail)
            else:
                self._record_failure(part, data, v.clause, v.detail)
            raise
        except HarnessError:
            raise
        except RecursionError as e:
            if from_library(e):
                self._record_failure(part, data, "unexpected-exception", short_tb(e))
                raise Violation("unexpected-exception", short_tb(e)) from None
            raise
        except Exception as e:  # noqa: BLE001
            if _is_hypothesis_control(e):
                raise
            if from_library(e):
                self._record_failure(part, data, "unexpected-exception", short_tb(e))
                raise Violation("unexpected-exception", short_tb(e)) from None
            raise HarnessError(f"{part.name}: {short_tb(e, 10)}") from e
        finally:
            if armed:
                signal.setitimer(signal.ITIMER_REAL, 0)
            gc_every(self)
        if count:
            self._count(part, data, lab)

    def _count(self, part: Part, data: Any, lab: Labels) -> None:
        st = self.stats
        st.evaluations += 1
        st.part_counts[part.name] += 1
        for t in lab.tags:
            st.labels[f"{part.name}:{t}"] += 1
        for k, v in lab.counts.items():
            st.labels[f"{part.name}:#{k}"] += v
        for e in lab.excluded:
            st.excluded[e] += 1
        if lab.nontrivial:
            st.labels[f"{part.name}:NONTRIVIAL"] += 1
            st.nontrivial.add(case_hash([part.name, data]))
        key = f"{part.name}/{lab.sample_class or ('nontrivial' if lab.nontrivial else 'trivial')}"
        if key not in st.samples and len(st.samples) < 12:
            txt = canonical(data)
            if len(txt) <= 4000:
                st.samples[key] = json.loads(txt)

    def _record_failure(self, part: Part, data: Any, clause: str, detail: str) -> None:
        self.failures_seen += 1
        self.failure = {
            "prop": self.ctx.prop,
            "part": part.name,
            "data": json.loads(canonical(data)),
            "clause": clause,
            "detail": detail[:2000],
            "warm": self.warm,
        }
        if self.first_failure is None:
            self.first_failure = dict(self.failure)


_gc_counter = 0


def gc_every(_runner: Any, n: int = 50) -> None:
    """Checks that call gc.collect() inside a case (registry properties) would pay for the whole heap
    of the search (Hypothesis' bookkeeping, the case history) on every call, so cost per case grew
    with the number of cases already run. After each case everything still alive is moved to the
    permanent generation (gc.freeze); every n cases it is thawed, collected and frozen again."""
    global _gc_counter
    _gc_counter += 1
    if _gc_counter % n == 0:
        gc.unfreeze()
        gc.collect()
    gc.freeze()


def _is_hypothesis_control(e: BaseException) -> bool:
    mod = type(e).__module__ or ""
    return mod.startswith("hypothesis") or mod.startswith("_hypothesis")


# ---------------------------------------------------------------------------
# Search drivers
# ---------------------------------------------------------------------------

SHRINK_BUDGET_S = float(os.environ.get("VERIF_SHRINK_S", "45"))


def _with_trace_flag(strat: Any) -> Any:
    """one case in four runs with config.TRACE_LOGGING switched on (dict-shaped cases only): the
    diagnostic switch must not change any result."""
    from hypothesis import strategies as st

    def add(t: tuple) -> Any:
        d, k = t
        if isinstance(d, dict) and k == 0 and "trace" not in d:
            return {**d, "trace": True}
        return d

    return st.tuples(strat, st.integers(0, 3)).map(add)


def apply_case_config(data: Any) -> None:
    if isinstance(data, dict) and data.get("trace"):
        from pyoak import config

        config.TRACE_LOGGING = True
        legacy = sys.modules.get("pyoak.legacy.node")
        if legacy is not None:
            legacy.TRACE_LOGGING = True


def hypothesis_search(runner: CaseRunner, part: Part, n_examples: int) -> None:
    """Seeded Hypothesis run; on failure shrinks within SHRINK_BUDGET_S and returns.

    The verdict is decided by the first failing case; shrinking only makes the saved
    replay smaller (after the budget every further evaluation is reported as passing
    to Hypothesis, which ends the shrinker; its final Flaky/… complaint is ignored).
    """
    import hypothesis
    from hypothesis import HealthCheck, Phase, given, settings

    ctx = runner.ctx
    strat = _with_trace_flag(part.strategy(ctx))
    state = {"first_fail_at": None}
    part_index = [p.name for p in runner.module.PARTS].index(part.name)
    hseed = (ctx.seed * 1000 + ctx.shard) * 100 + part_index

    @hypothesis.seed(hseed)
    @settings(
        max_examples=n_examples,
        database=None,
        deadline=None,
        derandomize=False,
        report_multiple_bugs=False,
        phases=[Phase.generate, Phase.shrink],
        suppress_health_check=[HealthCheck.too_slow, HealthCheck.data_too_large],
        verbosity=hypothesis.Verbosity.quiet,
    )
    @given(strat)
    def test(data: Any) -> None:
        if state["first_fail_at"] is not None:
            if runner.no_shrink or time.monotonic() - state["first_fail_at"] > SHRINK_BUDGET_S:
                return  # shrink budget exhausted: stop the shrinker
            try:
                runner.run_case(part, data, count=False)
            except Violation:
                raise
            return
        try:
            runner.run_case(part, data)
        except Violation:
            state["first_fail_at"] = time.monotonic()
            raise

    try:
        test()
    except Violation:
        pass
    except HarnessError:
        raise
    except BaseException as e:  # noqa: BLE001
        if isinstance(e, (KeyboardInterrupt, SystemExit)):
            raise
        if runner.failure is None:
            # health check failures etc.: harness problem, never a violation
            raise HarnessError(f"{part.name}: hypothesis error {short_tb(e, 8)}") from e
        # Flaky / shrink-budget artefacts after a recorded failure are ignored


def enumeration_search(runner: CaseRunner, part: Part) -> None:
    ctx = runner.ctx
    n = 0
    for i, data in enumerate(part.enumerate(ctx)):
        if part.shard_enumeration and i % ctx.nshards != ctx.shard:
            continue
        n += 1
        try:
            runner.run_case(part, data)
        except Violation:
            break
    ex = runner.stats.exhaustive_parts.setdefault(
        part.name, {"cases": 0, "note": part.exhaustive_note}
    )
    ex["cases"] += n


def run_shard(module: Any, ctx: Ctx) -> dict:
    """Run every part of a property for one shard; returns a JSON-able result."""
    stats = Stats()
    runner = CaseRunner(ctx, module, stats)
    t0 = time.monotonic()
    # first-use order of the universe's classes differs between shards (see models_v2.warm)
    if getattr(module, "WARM_UNIVERSE", True):
        from pbt import models_v2

        runner.warm = ["none", "bases", "subs"][ctx.shard % 3]
        try:
            models_v2.warm(runner.warm)
            if getattr(module, "WARM_LEGACY", False):
                from pbt import models_legacy

                models_legacy.warm(runner.warm)
        except Exception as e:  # noqa: BLE001
            # the warm-up only fixes a first-use order; if the code under test cannot even do that, the
            # cases below meet the same failure inside an oracle, where it is reported with a replay
            if not from_library(e):
                raise
        reset_globals(True)
    only = os.environ.get("VERIF_PARTS")
    for part in module.PARTS:
        if only and part.name not in only.split(","):
            continue
        if part.custom is not None:
            try:
                part.custom(ctx, runner, part)
            except Violation:
                pass
            if runner.failure is not None:
                break
            continue
        if part.enumerate is None and part.strategy is None:
            continue  # replay-only part
        runner.history = []
        if part.enumerate is not None:
            enumeration_search(runner, part)
        else:
            total = part.thorough if ctx.thorough else part.quick
            n = max(1, -(-total // max(1, ctx.nshards)))
            hypothesis_search(runner, part, n)
        if runner.failure is not None:
            break
    res = {
        "stats": stats.to_json(),
        "failure": runner.failure,
        "first_failure": runner.first_failure,
        "wall_s": time.monotonic() - t0,
    }
    if runner.first_failure is not None:
        # cases executed before (and including) the first failure, for state-dependent failures
        res["history"] = {"part": runner.first_failure["part"], "warm": runner.warm,
                          "cases": json.loads(canonical(runner.history[-400:])),
                          # everything the shard ran before the failure, earlier parts included (for failures
                          # that depend on what the process did before, e.g. on re-used memory addresses)
                          "all": json.loads(canonical(runner.history_all[-4000:]))}
    return res


def replay_case(module: Any, case: dict) -> tuple[bool, str]:
    """Re-run the oracle on a saved case without Hypothesis. Returns (held, message)."""
    part = next((p for p in module.PARTS if p.name == case["part"]), None)
    if part is None:
        raise HarnessError(f"unknown part {case['part']!r} in replay")
    # a "sequence" replay runs several cases in one process (failures that need state left
    # behind by earlier cases, e.g. a cache inside the library)
    if case.get("warm") in ("bases", "subs"):
        from pbt import models_v2

        models_v2.warm(case["warm"])
        if getattr(module, "WARM_LEGACY", False):
            from pbt import models_legacy

            models_legacy.warm(case["warm"])
    datas = case["sequence"] if "sequence" in case else [case["data"]]
    parts_of = case.get("sequence_parts")
    for k, data in enumerate(datas):
        if parts_of:
            part = next(p for p in module.PARTS if p.name == parts_of[k])
        reset_globals(getattr(module, "CLEAR_MATCH_CACHES", True))
        apply_case_config(data)
        lab = Labels()
        try:
            try:
                part.check(data, lab)
            finally:
                gc_every(None)
        except Violation as v:
            return False, f"{v.clause}: {v.detail}" + (f" (case {k + 1} of {len(datas)})" if len(datas) > 1 else "")
        except Exception as e:  # noqa: BLE001
            if from_library(e):
                return False, f"unexpected-exception: {short_tb(e)}"
            raise HarnessError(f"replay: {short_tb(e, 10)}") from e
    return True, "held"
