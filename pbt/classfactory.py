"""Ad-hoc node classes built from specs by emitting module source and exec-ing it (C11-C13).

annotation AST:
  {"k":"scalar","n":"int|str|float|bool|bytes"} {"k":"none"} {"k":"any"} {"k":"enum"}
  {"k":"lit","vals":[...]} {"k":"newtype","of":A} {"k":"opt","of":A} {"k":"union","of":[A..],"pipe":bool}
  {"k":"tuple_var","of":A} {"k":"tuple_fix","of":[A..]} {"k":"tuple_bare"}
  {"k":"frozenset","of":A} {"k":"sequence","of":A} {"k":"mapping","of":[K,V]}
  {"k":"list","of":A} {"k":"dict","of":[K,V]} {"k":"set","of":A}
  {"k":"node","n":"NodeA|NodeB|NodeSub|Later"}      ("Later": forward reference, defined after the subject)
"""
from __future__ import annotations

import sys
import types
from typing import Any

_COUNTER = [0]
_CREATED_SINCE_CLEAR = [0]


def contains(a: dict, pred) -> bool:
    if pred(a):
        return True
    of = a.get("of")
    if isinstance(of, dict):
        return contains(of, pred)
    if isinstance(of, list):
        return any(contains(x, pred) for x in of)
    return False


def depth(a: dict) -> int:
    of = a.get("of")
    if isinstance(of, dict):
        return 1 + depth(of)
    if isinstance(of, list):
        return 1 + max((depth(x) for x in of), default=0)
    return 1


def strip_newtype(a: dict) -> dict:
    while a["k"] in ("newtype", "annotated"):
        a = a["of"]
    return a


def erase_annotated(a: dict) -> dict:
    """`Annotated[X, meta]` means X: the same annotation without the wrappers"""
    if a["k"] == "annotated":
        return erase_annotated(a["of"])
    of = a.get("of")
    if isinstance(of, dict):
        return {**a, "of": erase_annotated(of)}
    if isinstance(of, list):
        return {**a, "of": [erase_annotated(x) for x in of]}
    return a


# ------------------------------------------------------------------- reference classification


def _is_node_union(a: dict, allow_none: bool) -> bool:
    """node class, or union of node classes (with None only if allow_none), NewTypes looked through."""
    a = strip_newtype(a)
    if a["k"] == "node":
        return True
    if a["k"] == "opt":
        return allow_none and _is_node_union(a["of"], True)
    if a["k"] == "union":
        members = [strip_newtype(m) for m in a["of"]]
        if any(m["k"] == "none" for m in members) and not allow_none:
            return False
        rest = [m for m in members if m["k"] != "none"]
        return bool(rest) and all(_is_node_union(m, allow_none) for m in rest)
    return False


def _union_through_newtype(a: dict) -> bool:
    """a union / Optional with a member that is a NewType over another union / Optional: typing
    cannot flatten it; whether that still counts as 'a union of node classes' is left open."""
    def pred(x: dict) -> bool:
        if x["k"] not in ("union", "opt"):
            return False
        ms = x["of"] if x["k"] == "union" else [x["of"]]
        return any(m["k"] == "newtype" and strip_newtype(m)["k"] in ("union", "opt") for m in ms)

    return contains(a, pred)


def classify_ref(a: dict) -> str:
    """'child' | 'property' | 'rejected' | 'child|rejected' (unspecified corner, never a property)"""
    a = collapse_unions(erase_annotated(a))
    v = _classify(a)
    if v == "child" and _union_through_newtype(a):
        return "child|rejected"
    return v


def collapse_unions(a: Any) -> Any:
    """what typing makes of a union before anybody sees it: equal members are one member, and a union of one
    member is that member (`Union[tuple[X, ...], tuple[X, ...]]` *is* `tuple[X, ...]`, `int | int` is `int`)"""
    import json as _json

    if isinstance(a, list):
        return [collapse_unions(x) for x in a]
    if not isinstance(a, dict):
        return a
    out = {k: (collapse_unions(v) if k == "of" else v) for k, v in a.items()}
    if out.get("k") == "union":
        seen: list[str] = []
        members = []
        for m in out["of"]:
            key = _json.dumps({k: v for k, v in m.items() if k != "pipe"} if isinstance(m, dict) else m, sort_keys=True)
            if key not in seen:
                seen.append(key)
                members.append(m)
        if len(members) == 1:
            return members[0]
        out["of"] = members
    return out


def _classify(a: dict) -> str:
    has_node = contains(a, lambda x: x["k"] == "node")
    has_mut = contains(a, lambda x: x["k"] in ("list", "dict", "set") or (x["k"] == "scalar" and x["n"] == "bytearray"))
    if not has_node:
        return "rejected" if has_mut else "property"
    top = strip_newtype(a)
    if _is_node_union(top, True):
        return "child"
    if top["k"] == "tuple_var" and _is_node_union(top["of"], False):
        return "child"
    if top["k"] == "tuple_fix" and top["of"] and all(_is_node_union(m, False) for m in top["of"]):
        return "child"
    return "rejected"


def is_collection_shape(a: dict) -> bool:
    """outermost constructor (NewTypes / Annotated looked through) is a tuple, or a union all of whose members
    are (typing collapses `Union[tuple[X, ...], tuple[X, ...]]` into the tuple): default () instead of None"""
    a = strip_newtype(a)
    if a["k"] == "annotated":
        return is_collection_shape(a["of"])
    if a["k"] == "union":
        return all(is_collection_shape(m) for m in a["of"])
    return a["k"] in ("tuple_var", "tuple_fix", "tuple_bare")


# ----------------------------------------------------------------------------- rendering


class Emitter:
    def __init__(self, uid: int, postponed: bool) -> None:
        self.uid = uid
        self.postponed = postponed
        self.newtypes: list[str] = []  # module-level NewType definitions, in order

    def node_name(self, n: str) -> str:
        return f"{n}_{self.uid}"

    def expr(self, a: dict) -> str:
        """python expression for the annotation (forward refs as bare names)."""
        k = a["k"]
        if k == "scalar":
            return a["n"]
        if k == "none":
            return "None"
        if k == "any":
            return "Any"
        if k == "enum":
            return "LateColor" if a.get("late") else "Color"  # LateColor is defined after the classes
        if k == "lit":
            return "Literal[" + ", ".join(repr(v) for v in a["vals"]) + "]"
        if k == "annotated":
            return f"Annotated[{self.expr(a['of'])}, {a.get('meta', 1)!r}]"
        if k == "newtype":
            name = f"NT{len(self.newtypes)}_{self.uid}"
            self.newtypes.append(f'{name} = NewType("{name}", {self.expr(a["of"])})')
            return name
        if k == "opt":
            return f"Optional[{self.expr(a['of'])}]"
        if k == "union":
            parts = [self.expr(m) for m in a["of"]]
            if a.get("pipe") and not (len(parts) >= 2 and parts[0] == parts[1] == "None"):
                return " | ".join(parts)  # (`None | None` is not an expression Python can evaluate)
            return "Union[" + ", ".join(parts) + "]"
        if k == "tuple_var":
            return f"tuple[{self.expr(a['of'])}, ...]"
        if k == "tuple_fix":
            return "tuple[" + ", ".join(self.expr(m) for m in a["of"]) + "]"
        if k == "tuple_bare":
            return "Tuple" if a.get("typing") else "tuple"  # (the unparametrised typing alias means the same)
        if k == "frozenset":
            return f"frozenset[{self.expr(a['of'])}]"
        if k == "sequence":
            return f"Sequence[{self.expr(a['of'])}]"
        if k == "mapping":
            return f"Mapping[{self.expr(a['of'][0])}, {self.expr(a['of'][1])}]"
        if k == "list":
            return f"list[{self.expr(a['of'])}]"
        if k == "dict":
            return f"dict[{self.expr(a['of'][0])}, {self.expr(a['of'][1])}]"
        if k == "set":
            return f"set[{self.expr(a['of'])}]"
        if k == "node":
            return self.node_name(a["n"])
        raise ValueError(k)

    def annotation(self, a: dict) -> str:
        """source text of the annotation as written in the class body."""
        e = self.expr(a)
        if self.postponed:
            return e
        later = self.node_name("Later")
        if later not in e and "LateColor" not in e:
            return e
        if contains(a, lambda x: x["k"] == "union" and x.get("pipe")) or a["k"] in ("node", "enum"):
            return repr(e)  # the whole annotation as one string literal
        # string literal in place: Optional["Later"], tuple["Later", ...], frozenset["LateColor"]
        return e.replace(later, repr(later)).replace("LateColor", repr("LateColor"))


def forward_ok_for_newtype(a: dict) -> bool:
    return not contains(a, lambda x: (x["k"] == "node" and x["n"] == "Later") or (x["k"] == "enum" and x.get("late"))
                        or x["k"] == "annotated")  # (typing does not look into a NewType's supertype)


def default_for(a: dict) -> str:
    return "()" if is_collection_shape(a) else "None"


def emit_module(classes: list[dict], postponed: bool, uid: int) -> tuple[str, Emitter]:
    """classes: [{"name": "C0", "base": None | "C0", "fields": [{"name","ann","default"?, "flags"?}]}]"""
    em = Emitter(uid, postponed)
    body = ""
    for c in classes:
        if c.get("bases"):
            base = ", ".join(em.node_name(b) for b in c["bases"])
        else:
            base = "ASTNode" if c["base"] is None else em.node_name(c["base"])
        if c.get("plain_mixin_names") and base == "ASTNode" and not c.get("mixin_fields"):
            # a plain class (no dataclass) listed after the node base that merely *annotates* names the node
            # class declares as fields: it adds no field, but its annotations come first in get_type_hints()
            body += f"\nclass PlainMix_{uid}:\n" + "".join(f"    {n}: Any\n" for n in c["plain_mixin_names"])
            base = f"ASTNode, PlainMix_{uid}"
        if c.get("mixin_fields") and base == "ASTNode":
            # a plain (non-node) dataclass listed *after* the node base: its fields open the dataclass field order
            body += f"\n@dataclass(frozen=True)\nclass Mix_{uid}:\n"
            for f in c["mixin_fields"]:
                body += f"    {f['name']}: {em.annotation(f['ann'])} = {f['default']}\n"
            base = f"ASTNode, Mix_{uid}"
        body += f"\n@dataclass(frozen=True{', kw_only=True' if c.get('kw_only') else ''})\nclass {em.node_name(c['name'])}({base}):\n"
        if not c["fields"]:
            body += "    pass\n"
        for f in c["fields"]:
            ann = em.annotation(f["ann"])
            dflt = f.get("default", default_for(f["ann"]))
            args = []
            if dflt is not None:
                args.append(f"default={dflt}")
            for flag in ("init", "compare", "kw_only", "hash"):
                if flag in f.get("flags", {}):
                    args.append(f"{flag}={f['flags'][flag]}")
            if len(args) == 1 and dflt is not None:
                body += f"    {f['name']}: {ann} = {dflt}\n"
            elif args:
                body += f"    {f['name']}: {ann} = field({', '.join(args)})\n"
            else:
                body += f"    {f['name']}: {ann}\n"
        body += c.get("extra", "")
    head = ("from __future__ import annotations\n" if postponed else "") + (
        "import enum\nfrom dataclasses import dataclass, field\n"
        "from typing import Annotated, Any, Literal, Mapping, NewType, Optional, Sequence, Tuple, Union\n"
        "from pyoak.node import ASTNode\nfrom pyoak.origin import NO_ORIGIN, Origin\n\n"
        "class Color(enum.Enum):\n    RED = 'red'\n    GREEN = 'green'\n\n"
        "class Prio(enum.IntEnum):\n    LOW = 1\n    HIGH = 2\n\n"
        "class Line(int):\n    pass\n\n"
        f"@dataclass(frozen=True)\nclass NodeA_{uid}(ASTNode):\n    n: int = 0\n\n"
        f"@dataclass(frozen=True)\nclass NodeB_{uid}(ASTNode):\n    n: int = 0\n\n"
        f"@dataclass(frozen=True)\nclass NodeSub_{uid}(NodeA_{uid}):\n    m: int = 0\n\n"
        f"@dataclass(frozen=True)\nclass FalsyNode_{uid}(NodeA_{uid}):\n    def __len__(self):\n        return 0\n\n"
    )
    tail = (f"\n@dataclass(frozen=True)\nclass Later_{uid}(ASTNode):\n    n: int = 0\n"
            "\nclass LateColor(enum.Enum):\n    RED = 'red'\n")
    src = head + "\n".join(em.newtypes) + "\n" + body + tail
    return src, em


class Module:
    """an exec'd module of ad-hoc classes; `close()` removes its traces from pyoak's global tables"""

    def __init__(self, src: str, uid: int) -> None:
        self.name = f"pbt_adhoc_{uid}"
        self.uid = uid
        self.mod = types.ModuleType(self.name)
        self.mod.__file__ = f"<{self.name}>"
        self.src = src
        sys.modules[self.name] = self.mod
        self.error: BaseException | None = None
        self.extra_modules: list[str] = []
        try:
            exec(compile(src, self.mod.__file__, "exec", dont_inherit=True), self.mod.__dict__)
        except BaseException as e:  # noqa: BLE001
            self.error = e

    def get(self, n: str) -> Any:
        return self.mod.__dict__.get(f"{n}_{self.uid}")

    def close(self) -> None:
        import pyoak.serialize as S
        import pyoak.types as PT

        suffix = f"_{self.uid}"
        for k in [k for k in S.TYPES if k.endswith(suffix)]:
            del S.TYPES[k]
        for table in (PT._TYPE_TO_ALL_FIELDS, PT._TYPE_TO_CHILD_FIELDS, PT._TYPE_TO_PROPS):
            for k in [k for k in table if getattr(k, "__name__", str(k)).endswith(suffix)]:
                del table[k]
        sys.modules.pop(self.name, None)
        for n in self.extra_modules:
            sys.modules.pop(n, None)
        _CREATED_SINCE_CLEAR[0] += 1
        if _CREATED_SINCE_CLEAR[0] >= 300:
            _CREATED_SINCE_CLEAR[0] = 0
            import pyoak.typing as TY

            for v in vars(TY).values():
                if hasattr(v, "cache_clear"):
                    v.cache_clear()


def foreign_subclass(mod: Module, base_name: str, postponed: bool) -> Any:
    """an empty subclass of `base_name`, defined in ANOTHER module in which the names of the first
    module's node classes (and of its enum) are bound to unrelated non-node objects. Returns the
    class; `mod.close()` also removes its traces (same uid suffix)."""
    uid = mod.uid
    name = f"pbt_adhoc_{uid}_other"
    shadows = "".join(f"{n}_{uid} = {v}\n" for n, v in
                      (("NodeB", "int"), ("NodeSub", "str"), ("Later", "dict"), ("FalsyNode", "bytes")))
    src = (("from __future__ import annotations\n" if postponed else "")
           + "import sys\nfrom dataclasses import dataclass\n"
           + f"_B = sys.modules['pbt_adhoc_{uid}'].{base_name}_{uid}\n"
           + f"class NodeA_{uid}:\n    pass\n" + shadows + "Color = float\nOptional = list\n"
           + f"@dataclass(frozen=True)\nclass Foreign{base_name}_{uid}(_B):\n    pass\n")
    m = types.ModuleType(name)
    m.__file__ = f"<{name}>"
    sys.modules[name] = m  # stays importable until mod.close(), like a real module
    mod.extra_modules.append(name)
    exec(compile(src, m.__file__, "exec", dont_inherit=True), m.__dict__)
    return m.__dict__[f"Foreign{base_name}_{uid}"]


def new_uid() -> int:
    _COUNTER[0] += 1
    return _COUNTER[0]


def ensure_shadow_nodes() -> None:
    """another module of the process registers a NODE class whose simple name equals a non-node name
    the ad-hoc modules use in annotations (their enum `Color`): names in annotations are looked up in
    the defining module, never in the library's class-name registry"""
    name = "pbt_shadow_nodes"
    if name in sys.modules:
        return
    m = types.ModuleType(name)
    m.__file__ = f"<{name}>"
    sys.modules[name] = m
    src = ("from dataclasses import dataclass\nfrom pyoak.node import ASTNode\n\n"
           "@dataclass(frozen=True)\nclass Color(ASTNode):\n    n: int = 0\n\n"
           "@dataclass(frozen=True)\nclass LateColor(ASTNode):\n    n: int = 0\n")
    exec(compile(src, m.__file__, "exec", dont_inherit=True), m.__dict__)


def build(classes: list[dict], postponed: bool, uid: int | None = None) -> Module:
    ensure_shadow_nodes()
    uid = new_uid() if uid is None else uid
    src, _ = emit_module(classes, postponed, uid)
    return Module(src, uid)


# ------------------------------------------------------------------------------- strategies


def st_annotation(max_depth: int = 3, allow_forward: bool = True, allow_rejected: bool = True, late_enum: bool = False):
    from hypothesis import strategies as st

    scalars = st.sampled_from(["int", "str", "float", "bool", "bytes"]).map(lambda n: {"k": "scalar", "n": n})
    nodes = st.sampled_from(["NodeA", "NodeB", "NodeSub"] + (["Later", "Later"] if allow_forward else [])).map(
        lambda n: {"k": "node", "n": n})
    leaf = st.one_of(
        scalars, scalars, nodes, nodes, nodes, st.just({"k": "none"}), st.just({"k": "any"}), st.just({"k": "enum"}),
        *([st.just({"k": "enum", "late": True})] if late_enum else []),
        st.just({"k": "tuple_bare"}),
        # ("Color" / "LateColor" are also the names of registered node classes, see ensure_shadow_nodes)
        st.sampled_from([["a", 1], ["NodeA"], [1, 2], ["x"], ["Color"], ["a", "LateColor"]]).map(lambda v: {"k": "lit", "vals": v}),
    )

    def extend(inner):
        two = st.lists(inner, min_size=2, max_size=3)
        opts = [
            inner.map(lambda a: {"k": "opt", "of": a}),
            st.tuples(two, st.booleans()).map(lambda t: {"k": "union", "of": t[0], "pipe": t[1]}),
            inner.map(lambda a: {"k": "tuple_var", "of": a}),
            inner.map(lambda a: {"k": "tuple_var", "of": a}),
            st.lists(inner, min_size=1, max_size=3).map(lambda a: {"k": "tuple_fix", "of": a}),
            inner.map(lambda a: {"k": "frozenset", "of": a}),
            inner.map(lambda a: {"k": "sequence", "of": a}),
            st.tuples(scalars, inner).map(lambda t: {"k": "mapping", "of": [t[0], t[1]]}),
            inner.filter(forward_ok_for_newtype).map(lambda a: {"k": "newtype", "of": a}),
            inner.filter(forward_ok_for_newtype).map(lambda a: {"k": "newtype", "of": a}),
            # Annotated[X, meta] is X (metadata that is a str is resolved like a forward reference by typing)
            st.tuples(inner, st.sampled_from([1, 1, "doc", 2.5])).map(lambda t: {"k": "annotated", "of": t[0], "meta": t[1]}),
        ]
        if allow_rejected:
            opts.append(st.just({"k": "scalar", "n": "bytearray"}))  # a mutable sequence that looks like a scalar
            # optional node types inside tuples, with None at every position of the union and in both
            # spellings (rejected whatever the order of the members)
            nodes2 = st.lists(nodes, min_size=1, max_size=2)

            def opt_union(t: tuple) -> dict:
                ms, pos, pipe = t
                ms = list(ms)
                ms.insert(pos % (len(ms) + 1), {"k": "none"})
                return {"k": "union", "of": ms, "pipe": pipe}

            ounion = st.tuples(nodes2, st.integers(0, 2), st.booleans()).map(opt_union)
            opts += [
                ounion.map(lambda u: {"k": "tuple_var", "of": u}),
                st.tuples(nodes, ounion, st.booleans()).map(
                    lambda t: {"k": "tuple_fix", "of": [t[0], t[1]] if t[2] else [t[1], t[0]]}),
                inner.map(lambda a: {"k": "list", "of": a}),
                st.tuples(scalars, inner).map(lambda t: {"k": "dict", "of": [t[0], t[1]]}),
                inner.map(lambda a: {"k": "set", "of": a}),
            ]
        return st.one_of(*opts)

    return st.recursive(leaf, extend, max_leaves=5).filter(lambda a: depth(a) <= max_depth + 1).filter(_python_ok)


def _python_ok(a: dict) -> bool:
    """annotation expressions Python itself refuses are not pyoak's verdict: keep them out.
    - `X | Y` where both operands are plain strings / None-only is fine; Literal | ... is fine;
    - a union / Optional / Literal member must be hashable & a type: Union[..., tuple] ok."""
    def bad(x: dict) -> bool:
        if x["k"] == "union" and x.get("pipe"):
            # `None | None` is a TypeError; at least one operand must be a real type
            ms = x["of"]
            if all(m["k"] == "none" for m in ms):
                return True
            # int | None | None fine; Literal[...] | None fine
        if x["k"] in ("frozenset", "set") and contains(x["of"], lambda y: y["k"] in ("list", "dict", "set")):
            return False
        return False

    return not contains(a, bad)
