"""atheris target for C17 (thorough tier). The semantic oracle (totality, agreement of the three
pattern entry points, recompilation / cache consistency on a fixed pool) is inside the target:
pbt.props.c17.check_text raises on a violation, which libFuzzer records as a crash artifact."""
import os
import sys

VERIF = os.path.dirname(os.path.dirname(os.path.abspath(__file__)))
sys.path.insert(0, VERIF)
sys.path.insert(0, os.path.join(os.environ.get("VERIF_REPO", "/repo"), "src"))
sys.path.append(os.path.join(VERIF, ".deps"))
sys.dont_write_bytecode = True

import atheris  # noqa: E402

with atheris.instrument_imports(include=["lark", "pyoak.match"]):
    import pyoak.match.pattern  # noqa: F401
    import pyoak.match.xpath  # noqa: F401

from pbt import runtime as rt  # noqa: E402
from pbt.props import c17  # noqa: E402

LANG = os.environ.get("VERIF_FUZZ_LANG", "pattern")


def TestOneInput(data: bytes) -> None:
    text = data.decode("utf-8", "replace")
    rt.reset_globals(True)  # registries and both compile caches: no state leaks between iterations
    c17.check_text({"kind": "fuzz", "lang": LANG, "text": text, "expect": None}, rt.Labels())


if __name__ == "__main__":
    atheris.Setup(sys.argv, TestOneInput)
    atheris.Fuzz()
