"""Pattern ASTs, rendering and the reference interpreter shared by C08 and C17.

tree  := {"t": "tree", "classes": ["*"] | [name, ...], "fields": [fspec, ...]}
fspec := {"name": field, "val": None | value | seq, "cap": name | None}
value := tree | {"t": "var", "name": n} | {"t": "none"} | {"t": "re", "rx": text}
seq   := {"t": "seq", "items": [{"val": value, "cap": name | None}, ...], "tail": None | {"cap": name | None}}
"""
from __future__ import annotations

import re
from typing import Any, Callable


class Det:
    """tiny deterministic choice stream seeded by a Hypothesis-drawn integer"""

    def __init__(self, seed: int) -> None:
        self.s = (seed * 2654435761 + 12345) & 0xFFFFFFFF

    def next(self, n: int) -> int:
        self.s = (self.s * 1103515245 + 12345) & 0x7FFFFFFF
        return (self.s >> 8) % n if n > 0 else 0

    def chance(self, num: int, den: int) -> bool:
        return self.next(den) < num

    def pick(self, xs: list) -> Any:
        return xs[self.next(len(xs))]


# ------------------------------------------------------------------------------ rendering


def tokens(p: dict) -> list[str]:
    t = p["t"]
    if t == "tree":
        out = ["("]
        for i, c in enumerate(p["classes"]):
            if i:
                out.append("|")
            out.append(c)
        for f in p["fields"]:
            out += ["@", f["name"]]
            if f["val"] is not None:
                out.append("=")
                out += tokens(f["val"])
            if f.get("cap"):
                out += ["->", f["cap"]]
        out.append(")")
        return out
    if t == "seq":
        out = ["["]
        for it in p["items"]:
            out += tokens(it["val"])
            if it.get("cap"):
                out += ["->", it["cap"]]
        if p["tail"] is not None:
            out.append("*")
            if p["tail"].get("cap"):
                out += ["->", p["tail"]["cap"]]
        out.append("]")
        return out
    if t == "var":
        return ["$", p["name"]]
    if t == "none":
        return ["None"]
    if t == "re":
        return ['"' + p["rx"] + '"']
    raise ValueError(t)


def join_tokens(toks: list[str], ws: int = 0, blank: str = " ") -> str:
    """canonical text; bit i of `ws` adds a blank (`blank`: any run of the grammar's ignored whitespace
    characters - space, tab, LF, CR, FF) at the i-th token boundary (never inside a token, never
    before the first token)."""
    out = ""
    word = lambda c: c.isalnum() or c == "_"  # noqa: E731
    for i, t in enumerate(toks):
        if i > 0:
            prev = toks[i - 1]
            if word(prev[-1]) and word(t[0]) and not (prev.isdigit() and t.isdigit()):
                out += " "  # (two digit tokens of one xpath index may touch: every digit is a token of its own)
            elif prev == "$" or prev == "@":
                pass  # keep sigils attached unless a blank is requested
            if ws >> (i - 1) & 1 and not out.endswith(" "):
                out += blank
        out += t
    return out


def render(p: dict, ws: int = 0) -> str:
    return join_tokens(tokens(p), ws)


# ------------------------------------------------------------------------ reference semantics


def ref_match(p: dict, value: Any, ctx: dict, is_node: Callable[[Any], bool],
              isinstance_of: Callable[[Any, list[str]], bool]) -> tuple[bool, dict]:
    """returns (ok, captures). `ctx` holds captures visible so far."""
    t = p["t"]
    if t == "tree":
        if not is_node(value) or not (p["classes"] == ["*"] or isinstance_of(value, p["classes"])):
            return False, {}
        local = dict(ctx)
        caps: dict = {}
        for f in p["fields"]:
            if not hasattr(value, f["name"]):
                return False, {}
            v = getattr(value, f["name"])
            if f["val"] is None:
                ok, new = True, {}
            else:
                ok, new = ref_match(f["val"], v, local, is_node, isinstance_of)
            if not ok:
                return False, {}
            if f.get("cap"):
                new = {f["cap"]: v, **new}
            local.update(new)
            caps.update(new)
        return True, caps
    if t == "seq":
        items = p["items"]
        if not items and p["tail"] is None:
            return (isinstance(value, tuple) and len(value) == 0), {}
        if not isinstance(value, (tuple, list)):
            return False, {}
        if p["tail"] is None and len(value) != len(items):
            return False, {}
        if p["tail"] is not None and len(value) < len(items):
            return False, {}
        local = dict(ctx)
        caps = {}
        for it, el in zip(items, value):
            ok, new = ref_match(it["val"], el, local, is_node, isinstance_of)
            if not ok:
                return False, {}
            if it.get("cap"):
                new = {it["cap"]: el, **new}
            local.update(new)
            caps.update(new)
        if p["tail"] is not None and p["tail"].get("cap"):
            caps[p["tail"]["cap"]] = value[len(items):]
        return True, caps
    if t == "var":
        cv = ctx[p["name"]]
        if is_node(cv):
            return (is_node(value) and type(value) is type(cv) and cv.content_id == value.content_id), {}
        return bool(cv == value), {}
    if t == "none":
        return value is None, {}
    if t == "re":
        return re.match(p["rx"], str(value)) is not None, {}
    raise ValueError(t)


# ------------------------------------------------------------------------ well-formedness helpers


def capture_names(p: Any) -> list[str]:
    out: list[str] = []
    if isinstance(p, dict):
        if p.get("cap"):
            out.append(p["cap"])
        for v in p.values():
            out.extend(capture_names(v))
    elif isinstance(p, list):
        for v in p:
            out.extend(capture_names(v))
    return out
