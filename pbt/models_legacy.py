"""The fixed legacy (parent-aware) universe and spec helpers for C18-C20.

spec := {"c": Class, "p": {field: value}, "k": {field: spec | None | [spec, ...]}, "o": origin spec}
"""
from __future__ import annotations

import sys
import types
import warnings
from typing import Any

MODULE_NAME = "pbt_universe_legacy"

SOURCE = '''
import typing
from dataclasses import dataclass, field
from pyoak.legacy.node import AwareASTNode


@dataclass
class LLeaf(AwareASTNode):
    v: int = 0


@dataclass
class LLeafB(AwareASTNode):
    s: str = ""


@dataclass
class LSub(LLeaf):
    w: int = 0


@dataclass
class LInner(AwareASTNode):
    req: AwareASTNode | None = None
    opt: AwareASTNode | None = None
    items: tuple[AwareASTNode, ...] = ()
    lst: list[AwareASTNode] = field(default_factory=list)
    un: LLeaf | LLeafB | None = None
    oseq: tuple[AwareASTNode, ...] | None = None
    v: int = 0
    # a class attribute (no field) that holds a node, e.g. a shared sentinel: no child of anybody
    EMPTY: typing.ClassVar[typing.Any] = None


@dataclass
class LInnerX(LInner):
    extra: AwareASTNode | None = None


@dataclass
class LFalsy(LInner):
    """a container-like node that is falsy (as a class with __len__ over an empty field is)"""

    def __len__(self) -> int:
        return 0


@dataclass
class LHide(AwareASTNode):
    """its child does not take part in comparisons: a node of this class can be == to its own parent"""

    kid: AwareASTNode | None = field(default=None, compare=False)
    v: int = 0


@dataclass
class LDyn(AwareASTNode):
    """children held in fields whose annotations name no node class: the legacy nodes find their
    children by looking at the field values"""

    dyn: typing.Any = None
    dseq: typing.Sequence[AwareASTNode] = ()
    v: int = 0


@dataclass
class LReq(AwareASTNode):
    req: AwareASTNode
    v: int = 0


from pyoak.origin import NO_ORIGIN as _NO_ORIGIN

LInner.EMPTY = LLeaf(v=99, origin=_NO_ORIGIN, create_detached=True)
'''

CHILD_FIELDS = {
    "LLeaf": [], "LLeafB": [], "LSub": [],
    "LInner": [("req", "one"), ("opt", "one"), ("items", "tuple"), ("lst", "list"), ("un", "one"), ("oseq", "otuple")],
    "LInnerX": [("req", "one"), ("opt", "one"), ("items", "tuple"), ("lst", "list"), ("un", "one"), ("oseq", "otuple"),
                ("extra", "one")],
    "LFalsy": [("req", "one"), ("opt", "one"), ("items", "tuple"), ("lst", "list"), ("un", "one"), ("oseq", "otuple")],
    "LHide": [("kid", "one")],
    "LDyn": [("dyn", "one"), ("dseq", "tuple")],
    "LReq": [("req", "one")],
}
PROP_FIELDS = {"LLeaf": ["v"], "LLeafB": ["s"], "LSub": ["v", "w"], "LInner": ["v"], "LInnerX": ["v"], "LFalsy": ["v"], "LHide": ["v"], "LDyn": ["v"], "LReq": ["v"]}
BASES = {"LLeaf": ["LLeaf"], "LLeafB": ["LLeafB"], "LSub": ["LSub", "LLeaf"], "LInner": ["LInner"],
         "LInnerX": ["LInnerX", "LInner"], "LFalsy": ["LFalsy", "LInner"], "LHide": ["LHide"], "LDyn": ["LDyn"], "LReq": ["LReq"]}
CLASS_NAMES = list(CHILD_FIELDS)
UN_CLASSES = ("LLeaf", "LLeafB", "LSub")


def is_subclass(name: str, base: str) -> bool:
    return base in ("AwareASTNode",) or base in BASES[name]


def load() -> types.ModuleType:
    if MODULE_NAME in sys.modules:
        return sys.modules[MODULE_NAME]
    mod = types.ModuleType(MODULE_NAME)
    mod.__file__ = f"<{MODULE_NAME}>"
    sys.modules[MODULE_NAME] = mod
    with warnings.catch_warnings():
        warnings.simplefilter("ignore", DeprecationWarning)
        exec(compile(SOURCE, mod.__file__, "exec", dont_inherit=True), mod.__dict__)
    return mod


def cls(name: str) -> Any:
    if name == "AwareASTNode":
        from pyoak.legacy.node import AwareASTNode

        return AwareASTNode
    return getattr(load(), name)


def children_of_spec(s: dict) -> list[tuple[dict, str, int | None]]:
    out = []
    for fn, kind in CHILD_FIELDS[s["c"]]:
        v = s.get("k", {}).get(fn)
        if v is None:
            continue
        if kind == "one":
            out.append((v, fn, None))
        else:
            out.extend((x, fn, i) for i, x in enumerate(v))
    return out


class LBuilt:
    """builds an attached legacy tree bottom-up; keeps spec-node -> live object by id(spec dict)"""

    def __init__(self, spec: dict, sources: list | None = None, **node_kwargs: Any) -> None:
        from pbt import origins as og

        self.sources = sources if sources is not None else og.make_sources()
        self.live: dict[int, Any] = {}
        self.specs: list[dict] = []
        self.root = self._build(spec, node_kwargs)

    def _build(self, s: dict, node_kwargs: dict) -> Any:
        from pbt import origins as og

        kw: dict = {}
        for fn, kind in CHILD_FIELDS[s["c"]]:
            v = s.get("k", {}).get(fn)
            if kind == "one":
                kw[fn] = None if v is None else self._build(v, node_kwargs)
            elif kind == "otuple":
                kw[fn] = None if v is None else tuple(self._build(x, node_kwargs) for x in v)
            elif kind == "tuple":
                kw[fn] = tuple(self._build(x, node_kwargs) for x in (v or []))
            else:
                kw[fn] = [self._build(x, node_kwargs) for x in (v or [])]
        kw.update(s.get("p", {}))
        node = cls(s["c"])(origin=og.build_origin(s.get("o", ["no"]), self.sources), **kw, **node_kwargs)
        self.live[id(s)] = node
        self.specs.append(s)
        return node

    def of(self, s: dict) -> Any:
        return self.live[id(s)]


def preorder(s: dict) -> list[tuple[dict, dict | None, str | None, int | None]]:
    out: list = [(s, None, None, None)]

    def rec(p: dict) -> None:
        for c, fn, i in children_of_spec(p):
            out.append((c, p, fn, i))
            rec(c)

    rec(s)
    return out


def st_tree(leaves: int = 10, width: int = 4, wide: bool = True):
    from hypothesis import strategies as st

    from pbt import origins as og

    origin = st.one_of(st.just(["no"]), st.just(["no"]), og.st_simple_origin(12))
    leaf = st.one_of(
        st.fixed_dictionaries({"c": st.just("LLeaf"), "p": st.fixed_dictionaries({"v": st.integers(0, 3)}), "o": origin}),
        st.fixed_dictionaries({"c": st.just("LLeafB"), "p": st.fixed_dictionaries({"s": st.sampled_from(["", "a", "b"])}), "o": origin}),
        st.fixed_dictionaries({"c": st.just("LSub"), "p": st.fixed_dictionaries({"v": st.integers(0, 2), "w": st.integers(0, 1)}), "o": origin}),
    )
    unleaf = leaf

    def inner(children):
        opt = st.one_of(st.none(), children)
        items = st.lists(children, max_size=width)
        full = st.fixed_dictionaries({
            "c": st.just("LInner"), "o": origin, "p": st.fixed_dictionaries({"v": st.integers(0, 2)}),
            "k": st.fixed_dictionaries({"req": opt, "opt": opt, "items": items, "lst": items, "un": st.one_of(st.none(), unleaf),
                                        "oseq": st.one_of(st.none(), st.none(), items)}),
        })
        fullx = st.fixed_dictionaries({
            "c": st.just("LInnerX"), "o": origin, "p": st.fixed_dictionaries({"v": st.integers(0, 2)}),
            "k": st.fixed_dictionaries({"req": opt, "opt": st.none(), "items": items, "lst": st.just([]), "un": st.none(),
                                        "oseq": st.none(), "extra": opt}),
        })
        req = st.fixed_dictionaries({"c": st.just("LReq"), "o": origin, "p": st.fixed_dictionaries({"v": st.integers(0, 2)}),
                                     "k": st.fixed_dictionaries({"req": children})})
        falsy = st.fixed_dictionaries({
            "c": st.just("LFalsy"), "o": origin, "p": st.fixed_dictionaries({"v": st.integers(0, 2)}),
            "k": st.fixed_dictionaries({"req": opt, "opt": opt, "items": items, "lst": items, "un": st.none(), "oseq": st.none()}),
        })
        hide = st.fixed_dictionaries({"c": st.just("LHide"), "o": st.just(["no"]), "p": st.just({"v": 0}),
                                      "k": st.fixed_dictionaries({"kid": opt})})
        hide2 = opt.map(lambda k: {"c": "LHide", "o": ["no"], "p": {"v": 0},
                                   "k": {"kid": {"c": "LHide", "o": ["no"], "p": {"v": 0}, "k": {"kid": k}}}})
        dyn = st.fixed_dictionaries({"c": st.just("LDyn"), "o": origin, "p": st.fixed_dictionaries({"v": st.integers(0, 2)}),
                                     "k": st.fixed_dictionaries({"dyn": opt, "dseq": items})})
        opts = [full, full, full, full, fullx, req, falsy, hide, hide2, dyn]
        if wide:
            w = st.fixed_dictionaries({
                "c": st.just("LInner"), "o": origin, "p": st.just({"v": 0}),
                "k": st.fixed_dictionaries({"req": st.none(), "opt": st.none(), "un": st.none(), "oseq": st.none(),
                                            "items": st.lists(leaf, min_size=11, max_size=13),
                                            "lst": st.lists(leaf, min_size=0, max_size=12)}),
            })
            opts.append(w)
        return st.one_of(*opts)

    return st.recursive(leaf, inner, max_leaves=leaves)


def warm(order: str) -> None:
    """first use of the legacy classes in a chosen order (bases before subclasses or the reverse)"""
    from pyoak.origin import NO_ORIGIN

    if order not in ("bases", "subs"):
        return
    names = CLASS_NAMES if order == "bases" else list(reversed(CLASS_NAMES))
    with warnings.catch_warnings():
        warnings.simplefilter("ignore", DeprecationWarning)
        for name in names:
            kw = {"req": cls("LLeaf")(origin=NO_ORIGIN, v=9)} if name == "LReq" else {}
            n = cls(name)(origin=NO_ORIGIN, **kw)
            list(n.get_child_nodes())
            list(n.get_child_nodes_with_field())
            list(n.get_properties())
            type(n).get_child_fields()
            n.detach()


def build_chain(depth: int, shape: str) -> list[Any]:
    """an attached chain of `depth` single-child legacy nodes over a leaf, built iteratively bottom-up;
    returns the nodes top to bottom. shapes: req, items, lst, mixed"""
    from pyoak.origin import NO_ORIGIN

    with warnings.catch_warnings():
        warnings.simplefilter("ignore", DeprecationWarning)
        node = cls("LLeaf")(v=1, origin=NO_ORIGIN)
        out = [node]
        for k in range(depth):
            sh = shape if shape != "mixed" else ("req", "items", "lst")[k % 3]
            if sh == "req":
                node = cls("LInner")(req=node, v=k % 3, origin=NO_ORIGIN)
            elif sh == "items":
                node = cls("LInner")(items=(node,), v=k % 3, origin=NO_ORIGIN)
            else:
                node = cls("LInner")(lst=[node], v=k % 3, origin=NO_ORIGIN)
            out.append(node)
    out.reverse()
    return out
