"""C03 — the registry holds exactly the live, not-detached nodes under unique ids."""
from __future__ import annotations

import dataclasses
import gc
import weakref
from typing import Any

from hypothesis import strategies as st

from pbt import models_v2 as M
from pbt import origins as og
from pbt import trees as T
from pbt.runtime import Ctx, Labels, Part, require

PROP = "C03"
RULE = (
    "programs of up to 40 operations over a pool of held handles, one ID_DIGEST_SIZE in {1, 2, 8} "
    "per program: new leaf, new parent over pool nodes, twin (same class/content/origin/child "
    "objects), duplicate, dataclasses.replace, ASTNode.replace succeeding, ASTNode.replace failing "
    "(unknown kwarg / init=False field / ill-typed value under RUNTIME_TYPE_CHECK), detach, "
    "detach_self (also on already-detached nodes and on nodes whose id a twin has taken), "
    "dict/JSON/msgpack round trips, dropping a handle + gc. Operands are selectors resolved at run "
    "time against the current pool; macro sequences (detach; twin; detach/replace again) are emitted "
    "as plain ops. A model `id -> weakref` of what should be registered is updated per step from the "
    "statement; after every step all lookups (get_any, get strict / non-strict / other class / "
    "default), liveness of every node ever created (weakref dead unless reachable from the pool), "
    "id uniqueness, id determinism for free signatures and, for failing replaces, the whole lookup "
    "table are compared. non-trivial = an op hits a node whose id is held by another live node, or a "
    "drop is followed by lookups, or a failing replace hits a registered node."
)
ASSUMPTIONS = [
    "CPython reference counting + gc.collect() frees unreachable nodes deterministically",
    "the model in pbt/props/c03.py reads the statement: removal concerns the receiver only if it is the registered object",
    "id determinism is only asserted while the memoised id is free (digest size 1 makes different contents collide legally)",
]
FLOORS = {"programs:op-on-id-held-by-other": 0.05, "programs:drop-then-lookup": 0.1, "programs:failing-replace-registered": 0.08}

# (`Serial` carries a per-instance number that is neither a constructor argument nor compared: it is no part of the id)
LEAF_CLASSES = ["LeafA", "LeafB", "SubLeafA", "Falsy", "SlotLeaf", "Checked", "SameNameA", "SameNameB", "Serial"]
ORIGINS = [["no"], ["no"], ["code", 0, 0, 1], ["gen", 1], ["multi", [["code", 0, 0, 1], ["gen", 1]]],
           # two merged origins over the same positions and the same two sources that repeat a different one
           ["multi", [["code", 0, 0, 3], ["code", 1, 5, 8], ["code", 0, 10, 12]]],
           ["multi", [["code", 0, 0, 3], ["code", 1, 5, 8], ["code", 1, 10, 12]]]]


def _walk(n: Any, seen: dict) -> None:
    if id(n) in seen:
        return
    seen[id(n)] = n
    for c, _, _ in T.live_children(n):
        _walk(c, seen)


class Machine:
    def __init__(self, digest: int, lab: Labels) -> None:
        from pyoak import config

        self.digest = digest
        config.ID_DIGEST_SIZE = digest
        self.lab = lab
        self.sources = og.make_sources()
        self.pool: list[Any] = []
        self.reg: dict[str, weakref.ref] = {}  # what should be registered
        self.created: list[tuple[str, weakref.ref]] = []  # every node ever created
        self.known: set[int] = set()  # id() of live known nodes (refreshed from weakrefs)
        self.memo: dict[Any, str] = {}
        self.last: int | None = None
        self.step_no = 0
        self.dropped = False

    # ---------------------------------------------------------------- helpers
    def sel(self, s: int) -> Any | None:
        if not self.pool:
            return None
        if s == -1 and self.last is not None and self.last < len(self.pool):
            return self.pool[self.last]
        self.last = s % len(self.pool)
        return self.pool[self.last]

    def registered(self, n: Any) -> bool:
        r = self.reg.get(n.id)
        return r is not None and r() is n

    def sig(self, n: Any) -> Any:
        kids = tuple((c.content_id, tuple(map(str, og.origin_spec_of(c.origin, self.sources))))
                     for c, _, _ in T.live_children(n))
        return (type(n).__name__, tuple(map(str, og.origin_spec_of(n.origin, self.sources))),
                T.live_key(n), kids)

    def _registered_sigs(self) -> set:
        out = set()
        for r in self.reg.values():
            o = r()
            if o is not None:
                out.add(self.sig(o))
        return out

    def note_created(self, roots: list[Any], expect_ids: dict | None = None) -> None:
        """register (in the model) every node reachable from `roots` that was not known before."""
        seen: dict = {}
        for r in roots:
            _walk(r, seen)
        known_live = {id(r()) for _, r in self.created if r() is not None}
        new = [n for k, n in seen.items() if k not in known_live]
        # children before parents is not needed: each new node gets its own entry
        for n in new:
            cur = self.reg.get(n.id)
            require(cur is None or cur() is None or cur() is n, "id-not-unique",
                    f"step {self.step_no}: new {type(n).__name__} got id {n.id} held by a registered node")
            self.reg[n.id] = weakref.ref(n)
            self.created.append((n.id, weakref.ref(n)))

    def check_determinism(self, n: Any, sigs_before: set) -> None:
        s = self.sig(n)
        if s in sigs_before:
            return
        if self.digest >= 8 and "_" in n.id:
            # a collision suffix although no registered node equals the new one: its plain id is held by
            # an unequal node, i.e. the id depends on an unrelated registered node
            holder = self._holder_before.get(n.id.split("_")[0])
            require(holder is None or self.sig(holder) == s, "id-not-deterministic",
                    f"step {self.step_no}: a new {type(n).__name__} got the suffixed id {n.id} while no registered node "
                    f"has its class, origin, content and children (the plain id is held by an unequal {type(holder).__name__})")
        exp = self.memo.get(s)
        if exp is not None:
            holder = self._holder_before.get(exp)
            if holder is None:
                require(n.id == exp, "id-not-deterministic",
                        f"step {self.step_no}: {type(n).__name__} got {n.id}, earlier {exp} (id was free)")
                self.lab.tag("id-determinism-checked")
            elif self.digest >= 8 and holder is not n and self.sig(holder) != s:
                # the id this node gets when created alone is held by a node of *another* class / origin /
                # content / children: no registered node equals the new one, so it still has to get that id
                # (which, 8-byte digests not colliding by chance, an unequal node cannot hold)
                require(False, "id-not-deterministic",
                        f"step {self.step_no}: the id {exp} a {type(n).__name__} gets when created alone is held by an "
                        f"unequal registered {type(holder).__name__}; the new node got {n.id}")
        elif "_" not in n.id:
            self.memo[s] = n.id

    def snapshot_holders(self) -> None:
        self._holder_before = {k: r() for k, r in self.reg.items() if r() is not None}

    # ---------------------------------------------------------------- ops
    def op(self, o: list) -> None:
        import dataclasses as dc

        from pyoak import config
        from pyoak.error import InvalidTypes
        from pyoak.node import ASTNode

        self.step_no += 1
        kind = o[0]
        self.snapshot_holders()
        sigs_before = self._registered_sigs()
        if kind == "new_leaf":
            cn = LEAF_CLASSES[o[1] % len(LEAF_CLASSES)]
            n = M.cls(cn)(v=o[2] % 3, origin=og.build_origin(ORIGINS[o[3] % len(ORIGINS)], self.sources))
            self.pool.append(n)
            self.note_created([n])
            self.check_determinism(n, sigs_before)
        elif kind == "new_parent":
            if not self.pool:
                return
            kids = [self.pool[s % len(self.pool)] for s in o[2]]
            org = og.build_origin(ORIGINS[o[4] % len(ORIGINS)], self.sources)
            if o[1] % 5 == 4:  # a class with a child field called `children` between two other child fields
                n = M.cls("Kids")(header=kids[0], children=tuple(kids[1:]), footer=kids[-1] if len(kids) > 2 else None, origin=org)
            elif o[1] % 4 == 0:
                n = M.cls("Mixed")(child=kids[0] if len(kids) % 2 else None, items=tuple(kids), v=o[3] % 3, origin=org)
            elif o[1] % 4 == 1:
                # union field of two node classes; prefer the second alternative
                un = next((k for k in kids if type(k).__name__ == "LeafB"), None) or next(
                    (k for k in kids if type(k).__name__ == "LeafA"), None)
                n = M.cls("Uni")(one=kids[0], opt=kids[-1] if len(kids) > 1 else None, un=un, origin=org)
            elif o[1] % 4 == 2:  # multiple inheritance: the child field comes from the second base
                n = M.cls("Both")(kid=kids[0], ta=o[3] % 3, tb="t", origin=org)
            else:
                n = M.cls("TagA")(ta=o[3] % 3, origin=org)
            self.pool.append(n)
            self.last = len(self.pool) - 1
            self.note_created([n])
            self.check_determinism(n, sigs_before)
        elif kind == "twin":
            x = self.sel(o[1])
            if x is None:
                return
            kw = {f.name: getattr(x, f.name) for f in dc.fields(x) if f.init}
            held_by_other = not self.registered(x) and self._holder_before.get(x.id) is not None
            n = type(x)(**kw)
            require(n is not x, "twin-new-object", "")
            self.pool.append(n)
            self.note_created([n])
            if self.registered(x):
                require(n.id != x.id, "id-not-unique", f"step {self.step_no}: twin shares id {n.id} with registered original")
            self.check_determinism(n, sigs_before)
            self.lab.tag("twin")
            del held_by_other
        elif kind == "duplicate":
            x = self.sel(o[1])
            if x is None:
                return
            n = x.duplicate()
            self.pool.append(n)
            self.note_created([n])
        elif kind == "dc_replace":
            x = self.sel(o[1])
            if x is None:
                return
            n = dc.replace(x, **self._change(x, o[2]))
            self.pool.append(n)
            self.note_created([n])
            if self.registered(x):
                require(n.id != x.id, "dc-replace-id", f"step {self.step_no}")
        elif kind == "replace_ok":
            x = self.sel(o[1])
            if x is None:
                return
            self._touch(x)
            was = self.registered(x)
            n = x.replace(**self._change(x, o[2]))
            if was:
                del self.reg[x.id]
            self.pool.append(n)
            self.note_created([n])
            self.lab.tag("replace-ok")
        elif kind == "replace_fail":
            x = self.sel(o[1])
            if x is None:
                return
            self._touch(x)
            before = self.lookup_table()
            how = o[2] % 6
            if how == 3 and type(x).__name__ != "Checked":
                how = 0
            if how == 5 and not any(f.name == "items" for f in dc.fields(x)):
                how = 4
            if self.registered(x):
                self.lab.tag("failing-replace-registered")
            try:
                if how == 0:
                    x.replace(no_such_field=1)
                    exp: Any = TypeError
                elif how == 1:
                    x.replace(id="forced")
                    exp = ValueError
                elif how == 4:
                    # valid names, unchecked junk values: building the new node fails somewhere inside
                    x.replace(origin=None)
                elif how == 5:
                    x.replace(items=("not a node",))
                elif how == 3:
                    # the class's own validation fails after the base class has finished its part;
                    # only a compare=False field changes, so the rejected node has the receiver's id
                    self.lab.tag("failing-replace-own-post-init")
                    x.replace(note="bad")
                else:
                    config.RUNTIME_TYPE_CHECK = True
                    try:
                        x.replace(origin="not an origin")
                    finally:
                        config.RUNTIME_TYPE_CHECK = False
                    exp = (InvalidTypes, TypeError)
                require(False, "replace-should-fail", f"step {self.step_no} how={how}")
            except (TypeError, ValueError, InvalidTypes) as e:
                e.__traceback__ = None
                del e
            except Exception as e:  # noqa: BLE001 - junk values may fail in any way (how 4, 5)
                require(how in (4, 5), "failing-replace-unexpected-error", f"step {self.step_no} how={how}: {type(e).__name__}")
                e.__traceback__ = None
                del e
            gc.collect()
            after = self.lookup_table()
            require(before == after, "failing-replace-changed-registry",
                    f"step {self.step_no} how={how}: {sorted(set(before.items()) ^ set(after.items()), key=str)[:4]}")
        elif kind in ("detach", "detach_self"):
            x = self.sel(o[1])
            if x is None:
                return
            self._touch(x)
            if kind == "detach":
                seen: dict = {}
                _walk(x, seen)
                x.detach()
                for d in seen.values():
                    if self.registered(d):
                        del self.reg[d.id]
                self.lab.tag("detach")
            else:
                was = self.registered(x)
                ret = x.detach_self()
                require(ret is was, "detach_self-return",
                        f"step {self.step_no}: returned {ret} but receiver registered={was}")
                if was:
                    del self.reg[x.id]
                self.lab.tag("detach_self")
        elif kind == "roundtrip":
            x = self.sel(o[1])
            if x is None:
                return
            seen_rt: dict = {}
            _walk(x, seen_rt)
            if len({d.id for d in seen_rt.values()}) < len(seen_rt):
                # two different (given-up) objects of one id in one payload: the format identifies nodes
                # by id, such a tree has no faithful reading (only reachable with colliding 1-2 byte digests)
                self.lab.tag("roundtrip-skipped-ambiguous-ids")
                return
            if any(type(d).__name__ == "SameName" for d in seen_rt.values()):
                return  # a type tag names a class by its simple name: two classes of one name cannot both be read back
            fmt = o[2] % 3
            if fmt == 0:
                res = type(x).as_obj(x.as_dict())
            elif fmt == 1:
                res = type(x).from_json(x.to_json())
            else:
                res = type(x).from_msgpck(x.to_msgpck())
            self._check_roundtrip(x, res)
            self.pool.append(res)
            self.note_created([res])
            self.lab.tag("roundtrip")
        elif kind == "stale_and_rebuilt":
            # a subtree is given up as a whole, rebuilt (the copy takes over the freed ids), both are put
            # under one new parent - the stale one first - and the parent is detached: nothing below it
            # may stay registered
            x = self.sel(o[1])
            if x is None or not T.live_children(x):
                return
            seen_x: dict = {}
            _walk(x, seen_x)
            x.detach()
            for d in seen_x.values():
                if self.registered(d):
                    del self.reg[d.id]
            dup = x.duplicate()
            self.note_created([dup])
            pair = (x, dup) if o[2] % 4 else (dup, x)
            parent = M.cls("Mixed")(child=None, items=pair, v=o[2] % 3)
            self.note_created([parent])
            self.pool.append(parent)
            if o[2] % 2:
                seen_p: dict = {}
                _walk(parent, seen_p)
                parent.detach()
                for d in seen_p.values():
                    if self.registered(d):
                        del self.reg[d.id]
            self.lab.tag("stale-subtree-next-to-its-rebuilt-copy")
        elif kind == "vals_recreate":
            # a node whose property is a set (of ints / strings / sets) is created, given up, and created
            # again from an equal set built in another element order: the id is free, so it is the same
            from pbt.props.c01 import _colliding_sets

            k = 2 + o[1] % 4
            which = ("ffs", "fs", "fss")[o[2] % 3]
            elems = {"ffs": [frozenset(d["$fs"]) for d in _colliding_sets()], "fs": [8, 16, 0, 24, -1, 32],
                     "fss": ["b", "a", "zz", "", "aa", "c"]}[which][:k]
            other = elems[1:] + elems[:1] if o[3] % 2 else list(reversed(elems))
            org = og.build_origin(ORIGINS[o[3] % len(ORIGINS)], self.sources)
            first = M.cls("Vals")(**{which: frozenset(elems)}, origin=org)
            self.note_created([first])
            id1, cid1 = first.id, first.content_id
            held = self.registered(first) and "_" not in id1
            keep = o[1] % 2 == 0
            if self.registered(first):
                del self.reg[id1]
            if keep:
                first.detach_self()
            else:
                del first
                gc.collect()
            second = M.cls("Vals")(**{which: frozenset(other)}, origin=org)
            self.note_created([second])
            require(second.content_id == cid1, "id-not-deterministic",
                    f"step {self.step_no}: Vals.{which} from an equal set built in another order: content_id {second.content_id} / {cid1}")
            if held:
                require(second.id == id1, "id-not-deterministic",
                        f"step {self.step_no}: Vals.{which} re-created from an equal set built in another order got {second.id}, "
                        f"the given-up node had {id1} (id was free)")
            self.pool.append(second)
            self.lab.tag("recreated-from-permuted-set")
        elif kind == "use":
            # read-only use of a held tree (a Tree built on it, xpath search and match, traversal, comparison):
            # nothing of it may keep the nodes alive once the program drops them
            from pyoak.match.xpath import ASTXpath

            x = self.sel(o[1])
            if x is None:
                return
            x.to_tree()
            xp = ASTXpath("//" + type(x).__name__)
            list(xp.findall(x))
            xp.match(x, x)
            list(x.dfs())
            x == x  # noqa: B015
            self.lab.tag("read-only-use-before-drop")
        elif kind == "drop":
            if not self.pool:
                return
            i = o[1] % len(self.pool)
            self.pool.pop(i)
            self.last = None
            self.dropped = True
        else:
            raise ValueError(kind)
        self._holder_before = {}

    def _touch(self, x: Any) -> None:
        h = self._holder_before.get(x.id)
        if h is not None and h is not x:
            self.lab.tag("op-on-id-held-by-other")
        if not self.registered(x):
            self.lab.tag("op-on-detached")

    def _change(self, x: Any, c: int) -> dict:
        names = {f.name for f in dataclasses.fields(x)}
        if "v" in names and c % 3 != 2:
            return {"v": (x.v + 1 + c) % 3 if isinstance(x.v, int) else 0}
        if "ta" in names and c % 3 != 2:
            return {"ta": (x.ta + 1 + c) % 3}
        if c % 3 == 2 or "v" not in names:
            return {"origin": og.build_origin(ORIGINS[2 + c % 3], self.sources)}
        return {}

    def _check_roundtrip(self, x: Any, res: Any) -> None:
        """position-wise: a registered id yields the registered object, otherwise a new node with that id."""
        recreated: dict[str, Any] = {}

        def rec(o: Any, r: Any, path: str) -> bool:
            """returns whether the subtree came back with the original content (False when some position
            holds another live node that had taken over a freed id: then the ancestors' content differs)"""
            if o.id in recreated:
                require(r is recreated[o.id][0], "roundtrip-shared-object", f"step {self.step_no} at {path}")
                return recreated[o.id][1]
            holder = self._holder_before.get(o.id)
            if holder is not None:
                require(r is holder, "roundtrip-returns-registered", f"step {self.step_no} at {path}")
                return holder is o
            require(r is not o and type(r) is type(o) and r.id == o.id,
                    "roundtrip-recreates-with-id", f"step {self.step_no} at {path}: {type(r).__name__} {r.id} vs {o.id}")
            recreated[o.id] = (r, True)
            oc, rc = T.live_children(o), T.live_children(r)
            require(len(oc) == len(rc), "roundtrip-shape", path)
            faithful = True
            for (a, fa, ia), (b_, fb, ib) in zip(oc, rc):
                require((fa, ia) == (fb, ib), "roundtrip-shape", path)
                faithful = rec(a, b_, f"{path}.{fa}[{ia}]") and faithful
            recreated[o.id] = (r, faithful)
            if faithful:
                require(r.content_id == o.content_id, "roundtrip-recreates-with-id",
                        f"step {self.step_no} at {path}: content_id {r.content_id} vs {o.content_id}")
            else:
                self.lab.tag("roundtrip-position-taken-over-by-other-node")
            return faithful

        rec(x, res, "root")

    # ---------------------------------------------------------------- invariants
    def lookup_table(self) -> dict:
        from pyoak.node import ASTNode

        out = {}
        for i, _ in self.created:
            o = ASTNode.get_any(i)
            out[i] = id(o) if o is not None else None
        return out

    def invariants(self) -> None:
        from pyoak.node import ASTNode

        gc.collect()
        reach: dict = {}
        for p in self.pool:
            _walk(p, reach)
        Base = M.cls("Base")
        sentinel = object()
        for n in reach.values():
            got = ASTNode.get_any(n.id)
            if self.registered(n):
                require(got is n, "registered-node-not-returned",
                        f"step {self.step_no}: get_any({n.id}) is {'None' if got is None else type(got).__name__ + ' (other object)'}")
                require(type(n).get(n.id) is n, "get-own-class", f"step {self.step_no} {n.id}")
                require(Base.get(n.id, strict=False) is n, "get-superclass-nonstrict", f"step {self.step_no} {n.id}")
                require(ASTNode.get(n.id, strict=False) is n, "get-superclass-nonstrict", f"step {self.step_no}")
                if type(n) is not Base:
                    require(Base.get(n.id) is None, "get-strict-other-class", f"step {self.step_no} {n.id}")
                    require(Base.get(n.id, sentinel) is sentinel, "get-strict-default", f"step {self.step_no}")
                other = M.cls("LeafB" if type(n).__name__ != "LeafB" else "LeafA")
                require(other.get(n.id, sentinel, strict=False) is sentinel, "get-sibling-class", f"step {self.step_no}")
                # `get_any` is untyped whichever class it is reached through
                require(other.get_any(n.id) is n and type(n).get_any(n.id) is n, "lookup",
                        f"step {self.step_no}: {other.__name__}.get_any({n.id}) does not return the registered {type(n).__name__}")
            else:
                require(got is not n, "detached-node-returned", f"step {self.step_no}: get_any({n.id}) returns a detached node")
                require(type(n).get(n.id) is not n, "detached-node-returned-get", f"step {self.step_no}")
        # every node ever created: dead unless reachable; lookups never resurrect / keep alive
        for i, r in self.created:
            o = r()
            if o is not None and id(o) not in reach:
                require(False, "unreferenced-node-kept-alive",
                        f"step {self.step_no}: {type(o).__name__} {i} is unreachable from held handles but alive "
                        f"(referrers: {[type(x).__name__ for x in gc.get_referrers(o)][:4]})")
            got = ASTNode.get_any(i)
            exp = self.reg.get(i)
            exp_o = exp() if exp is not None else None
            require(got is exp_o, "lookup-vs-model",
                    f"step {self.step_no}: get_any({i}) -> {type(got).__name__ if got is not None else None}, "
                    f"model has {type(exp_o).__name__ if exp_o is not None else None}")
        for i in {i.split("_")[0] for i, _ in self.created}:
            got = ASTNode.get_any(i)
            require(got is None or got.id == i, "lookup-returns-node-with-other-id",
                    f"step {self.step_no}: get_any({i!r}) returns a node whose id is {getattr(got, 'id', None)!r}")
        for k in [k for k, r in self.reg.items() if r() is None]:
            del self.reg[k]
        if self.dropped:
            self.lab.tag("drop-then-lookup")


def check_program(data: dict, lab: Labels) -> None:
    m = Machine(data["digest"], lab)
    lab.tag(f"digest{data['digest']}")
    for o in data["ops"]:
        m.op(o)
        m.invariants()
    lab.count("steps", len(data["ops"]))
    lab.nontrivial = bool({"op-on-id-held-by-other", "drop-then-lookup", "failing-replace-registered"} & lab.tags)


def st_program(ctx: Ctx):
    sel = st.integers(0, 50)
    small = st.integers(0, 8)
    new_leaf = st.tuples(st.just("new_leaf"), small, small, small).map(list)
    new_parent = st.tuples(st.just("new_parent"), small, st.lists(sel, min_size=1, max_size=3), small, small).map(list)
    simple = {
        "twin": st.tuples(st.just("twin"), sel).map(list),
        "duplicate": st.tuples(st.just("duplicate"), sel).map(list),
        "dc_replace": st.tuples(st.just("dc_replace"), sel, small).map(list),
        "replace_ok": st.tuples(st.just("replace_ok"), sel, small).map(list),
        "replace_fail": st.tuples(st.just("replace_fail"), sel, small).map(list),
        "detach": st.tuples(st.just("detach"), sel).map(list),
        "detach_self": st.tuples(st.just("detach_self"), sel).map(list),
        "roundtrip": st.tuples(st.just("roundtrip"), sel, small).map(list),
        "drop": st.tuples(st.just("drop"), sel).map(list),
        "use": st.tuples(st.just("use"), sel).map(list),
    }
    again = st.sampled_from(["detach_self", "detach", "replace_ok", "replace_fail", "roundtrip", "dc_replace"])
    macro = st.tuples(sel, st.sampled_from(["detach_self", "detach"]), again, small).map(
        lambda t: [[t[1], t[0]], ["twin", -1], [t[2], -1, t[3]] if t[2] in ("replace_ok", "replace_fail", "roundtrip", "dc_replace") else [t[2], -1]]
    )
    # a parent is given up (only itself) and read back while its children are still registered
    reread = st.tuples(new_parent, small).map(lambda t: [t[0], ["detach_self", -1], ["roundtrip", -1, t[1]]])
    vals_recreate = st.tuples(st.just("vals_recreate"), small, small, small).map(list)
    stale = st.tuples(st.just("stale_and_rebuilt"), sel, small).map(list)
    one = st.one_of(new_leaf, new_leaf, new_parent, new_parent, *simple.values(), simple["twin"], simple["drop"], vals_recreate, stale).map(lambda o: [o])
    step = st.one_of(one, one, one, one, one, macro, reread)
    prog = st.lists(step, min_size=6, max_size=ctx.pick(18, 24)).map(lambda ss: [o for s in ss for o in s][:40])
    start = st.lists(st.one_of(new_leaf, new_leaf, new_parent), min_size=2, max_size=4)
    return st.fixed_dictionaries({"digest": st.sampled_from([1, 2, 8, 8]), "ops": st.tuples(start, prog).map(lambda t: t[0] + t[1])})


def enum_deep(ctx: Ctx):
    for shape in ("one", "items", "child", "mixed"):
        for factor in ((2, 4) if ctx.thorough else (2,)):
            for how in ("detach", "detach_self", "drop"):
                yield {"shape": shape, "factor": factor, "how": how}


def check_deep(data: dict, lab: Labels) -> None:
    """a chain far deeper than the recursion limit: every node is registered; detach() of the top
    unregisters all of them, detach_self() only the top, dropping the only reference frees all"""
    from pyoak.node import NODE_REGISTRY, ASTNode

    depth = T.deep_depth(data["factor"])
    nodes = T.build_chain(depth, data["shape"], og.make_sources())
    lab.tag("deep-chain", "deep-" + data["how"])
    lab.sample_class = "deep"
    ids = [n.id for n in nodes]
    require(len(set(ids)) == len(ids), "id-not-unique", f"depth {depth}")
    require(all(ASTNode.get_any(n.id) is n for n in nodes), "lookup-registered", f"depth {depth}")
    if data["how"] == "detach":
        nodes[0].detach()
        left = sum(1 for i in ids if ASTNode.get_any(i) is not None)
        require(left == 0, "detached-still-returned", f"depth {depth}: {left} of {len(ids)} nodes of a detached tree are still returned")
    elif data["how"] == "detach_self":
        require(nodes[0].detach_self() is True, "detach_self-return", "")
        require(ASTNode.get_any(ids[0]) is None, "detached-still-returned", "top")
        require(all(ASTNode.get_any(n.id) is n for n in nodes[1:]), "detach_self-unregistered-others", f"depth {depth}")
    else:
        del nodes
        gc.collect()
        left = sum(1 for i in ids if ASTNode.get_any(i) is not None)
        require(left == 0 and len(NODE_REGISTRY) == 0, "dropped-nodes-kept-alive", f"depth {depth}: {left} still returned")
    lab.nontrivial = True


PARTS = [Part("programs", check_program, strategy=st_program, quick=6400, thorough=320000),
         Part("deep", check_deep, enumerate=enum_deep,
              exhaustive_note="4 chain shapes x depth 2x (thorough: and 4x) the recursion limit x {detach, detach_self, drop}")]
