"""C02 — == is content equality plus origin equality at every position."""
from __future__ import annotations

import copy
from typing import Any

from hypothesis import strategies as st

from pbt import models_v2 as M
from pbt import origins as og
from pbt import trees as T
from pbt.props import c01
from pbt.runtime import Ctx, Labels, Part, require

PROP = "C02"
RULE = (
    "triples (a, b, c) of trees built from one Hypothesis tree spec: b and c get origin variants at "
    "positions chosen uniformly over all nodes (root, child, grandchild, deeper, inside tuples and "
    "single fields): a different origin, kind-only differences (code 0-0 vs generated, no-origin vs "
    "some, multi vs its first member), range or source differences; c optionally gets one of C01's "
    "content mutations; sources are the same objects or equal-but-distinct ones; a is optionally "
    "detached before b is built (so ids coincide). Oracle: x == y <=> same class, equal reference "
    "content key and equal origin specs at every pre-order position; != is the negation; reflexive, "
    "symmetric, transitive on the real results; foreign comparands (None, 0, str, sibling class, objects whose own __eq__ says yes to everything, "
    "subclass) compare unequal both ways; hash constant. non-trivial = some pair differs in exactly "
    "one origin at depth >= 2, or is an equal pair of distinct objects; distinct = distinct specs."
)
ASSUMPTIONS = [
    "origin equality is decided on canonical origin specs (kind, source, range, path, member list)",
    "a == b => hash(a) == hash(b) is deliberately not asserted (not claimed; hash is of the unique id)",
]
FLOORS = {"triples:one-origin-diff-depth>=2": 0.08, "triples:in-tuple-index>=1": 0.08, "triples:equal-pair": 0.2}

ORIGIN_VARIANTS = ["same", "one", "kind_code_gen", "kind_no_vs", "multi_vs_first", "range", "source", "member",
                   "member_kind", "member_order", "member_count"]


def _set_origin_variant(a: dict, b: dict, variant: str, pos: int, n: int) -> tuple[int, bool]:
    """sets the origin at position `pos` (pre-order index over node dicts) in a and b."""
    na = c01.spec_nodes(a)
    nb = c01.spec_nodes(b)
    i = pos % len(na)
    x, y = na[i]["node"], nb[i]["node"]
    s = n % 3
    if variant == "same":
        return i, False
    if variant == "one":
        cur = x.get("o", ["no"])
        y["o"] = next(o for o in c01.OTHER_ORIGINS[n % 5:] + c01.OTHER_ORIGINS if o != cur)
    elif variant == "kind_code_gen":
        x["o"], y["o"] = ["code", s, 0, 0], ["gen", s]
    elif variant == "kind_no_vs":
        x["o"], y["o"] = ["no"], [["gen", s], ["code", s, 0, 0], ["xml", 3, "/a"]][n % 3]
    elif variant == "multi_vs_first":
        m1, m2 = ["code", s, 1, 2], ["gen", (s + 1) % 3]
        x["o"], y["o"] = ["multi", [m1, m2]], m1
    elif variant == "range":
        x["o"], y["o"] = ["code", s, 1, 3], ["code", s, 1, 4]
    elif variant == "source":
        x["o"], y["o"] = ["code", s, 1, 3], ["code", (s + 1) % 3, 1, 3]
    elif variant == "member":
        x["o"] = ["multi", [["code", s, 1, 2], ["xml", 3, "/a"]]]
        y["o"] = ["multi", [["code", s, 1, 2], ["xml", 3, "/b"]]]
    elif variant == "member_kind":
        # members that differ only in their class: same source, same (empty) position
        other = ["xml", 3, "/a"]
        x["o"] = ["multi", [["code", s, 0, 0], other][:: 1 if n % 4 < 2 else -1]]
        y["o"] = ["multi", [["gen", s], other][:: 1 if n % 4 < 2 else -1]]
    elif variant == "member_order":
        m1, m2 = ["code", s, 1, 2], ["gen", (s + 1) % 3]
        x["o"], y["o"] = ["multi", [m1, m2]], ["multi", [m2, m1]]
    elif variant == "member_count":
        m1, m2 = ["code", s, 1, 2], ["gen", (s + 1) % 3]
        x["o"], y["o"] = ["multi", [m1, m2]], ["multi", [m1, m2, m2]]
    if n % 2:
        x["o"], y["o"] = y.get("o", ["no"]), x.get("o", ["no"])
    return i, True


def ref_equal(ea: T.ENode, eb: T.ENode) -> tuple[bool, list[int]]:
    """reference verdict of == and the list of pre-order positions whose origins differ."""
    if ea.cls != eb.cls or T.content_key(ea) != T.content_key(eb):
        return False, []
    pa, pb = T.nodes_preorder(ea), T.nodes_preorder(eb)
    assert len(pa) == len(pb)
    diff = [i for i, (x, y) in enumerate(zip(pa, pb)) if x.origin != y.origin]
    return not diff, diff


def _is_below(pre: list, top: int, i: int) -> bool:
    """is pre-order position i inside the subtree rooted at pre-order position top?"""
    size = len(T.nodes_preorder(pre[top]))
    return top < i < top + size


def _depths(e: T.ENode) -> list[tuple[int, int | None]]:
    out = [(0, None)]

    def rec(p: T.ENode, d: int) -> None:
        for c, _, i in p.children():
            out.append((d, i))
            rec(c, d + 1)

    rec(e, 1)
    return out


def check_triple(data: dict, lab: Labels) -> None:
    base = data["tree"]
    cm = data.get("cmut")
    if cm:
        base_ab, base_c, capplied = c01.mutate(base, cm, data["n"])
    else:
        base_ab, base_c, capplied = copy.deepcopy(base), copy.deepcopy(base), False
    sa = base_ab
    sb = copy.deepcopy(base_ab)
    sc = base_c
    # b: variant v1 at p1 (pre-set in a as well, and in c so that c only differs where intended)
    _set_origin_variant(sa, sb, data["v1"], data["p1"], data["n"])
    if not capplied:
        sc = copy.deepcopy(sb if data.get("c_from_b") else sa)
        other = copy.deepcopy(sc)
        _set_origin_variant(other, sc, data["v2"], data["p2"], data["n"] // 7)
        if data["v2"] in ("kind_code_gen", "kind_no_vs", "multi_vs_first", "range", "source", "member"):
            # the pre-set half of the variant must be present in a and b too
            i = data["p2"] % len(c01.spec_nodes(other))
            o = c01.spec_nodes(other)[i]["node"].get("o", ["no"])
            for s in (sa, sb):
                nodes = c01.spec_nodes(s)
                if i < len(nodes) and not (s is sb and i == data["p1"] % len(nodes) and data["v1"] != "same"):
                    nodes[i]["node"]["o"] = o
    lab.tag("v1-" + data["v1"], "v2-" + data["v2"])
    lab.tag_if(capplied, "content-mutation")

    fresh = data.get("fresh", False)
    ea, exa = T.expand(sa)
    eb, _ = T.expand(sb)
    ec, _ = T.expand(sc)
    if exa.n_shared and data["n"] % 3 == 0:
        # a keeps one object at several positions, b is built from distinct copies and differs in an
        # origin *below the first* of those positions only
        eb2, _ = T.expand(sb, allow_share=False)
        pa, pb2 = T.nodes_preorder(ea), T.nodes_preorder(eb2)
        if len(pa) == len(pb2):
            seen_uid: dict[int, int] = {}
            first_of_shared = None
            for i, e in enumerate(pa):
                if e.uid in seen_uid and any(True for _ in pa[seen_uid[e.uid]].children()):
                    first_of_shared = seen_uid[e.uid]
                    break
                seen_uid.setdefault(e.uid, i)
            if first_of_shared is not None:
                below = [i for i in range(first_of_shared + 1, len(pa))
                         if _is_below(pa, first_of_shared, i)]
                if below:
                    tgt = pb2[below[data["n"] // 3 % len(below)]]
                    tgt.origin = ["code", 2, 3, 5] if tgt.origin != ["code", 2, 3, 5] else ["gen", 2]
                    eb = eb2
                    lab.tag("difference-below-first-occurrence-of-shared-node")
    src = og.make_sources()
    ba = T.Built(ea, src)
    hashes = [(n, hash(n)) for n in T.live_nodes(ba.root)]
    if data.get("detach_a"):
        ba.root.detach()
        lab.tag("a-detached-before-b")
    bb = T.Built(eb, og.make_sources() if fresh else src)
    bc = T.Built(ec, og.make_sources() if fresh else src)
    a, b, c = ba.root, bb.root, bc.root
    hashes += [(n, hash(n)) for n in T.live_nodes(b)] + [(n, hash(n)) for n in T.live_nodes(c)]
    lab.tag_if(a.id == b.id, "same-id-pair")

    real = {}
    nontrivial = False
    for (nx, x, ex), (ny, y, ey) in (
        (("a", a, ea), ("b", b, eb)), (("b", b, eb), ("c", c, ec)), (("a", a, ea), ("c", c, ec)),
    ):
        exp, diff = ref_equal(ex, ey)
        got = x == y
        real[(nx, ny)] = got
        require(got is exp, "eq-vs-reference",
                f"{nx}=={ny}: expected {exp} (origins differ at pre-order positions {diff}), got {got}")
        require((y == x) is exp, "eq-symmetric", f"{ny}=={nx}")
        require((x != y) is (not exp), "ne-is-negation", f"{nx}!={ny} -> {x != y}")
        require((y != x) is (not exp), "ne-is-negation", f"{ny}!={nx}")
        if exp and x is not y:
            lab.tag("equal-pair")
            nontrivial = True
        if len(diff) == 1:
            d, idx = _depths(ex)[diff[0]]
            lab.tag(f"one-origin-diff-depth{min(d, 3)}")
            if d >= 2:
                lab.tag("one-origin-diff-depth>=2")
                nontrivial = True
            if idx is not None and idx >= 1:
                lab.tag("in-tuple-index>=1")
    # the same comparisons made from inside a running traversal of one operand give the same answers, and
    # the traversal still yields every position
    inner: list = []
    walked = list(a.dfs(filter=lambda i: (inner.append((a == b, b == a, a == c, i.node == i.node)), True)[1]))
    require(len(walked) == len(T.nodes_preorder(ea)) - 1, "traversal-disturbed-by-comparison",
            f"{len(walked)} positions, expected {len(T.nodes_preorder(ea)) - 1}")
    for r_ab, r_ba, r_ac, r_self in inner:
        require(r_ab is real[("a", "b")] and r_ba is real[("a", "b")] and r_ac is real[("a", "c")] and r_self is True,
                "eq-inside-a-running-traversal", f"{(r_ab, r_ba, r_ac, r_self)} vs {(real[('a', 'b')], real[('a', 'c')])}")
    if real[("a", "b")] and real[("b", "c")]:
        require(real[("a", "c")], "eq-transitive", "a==b and b==c but a!=c")
        lab.tag("transitive-chain")
    for x in (a, b, c):
        require(x == x and not (x != x), "eq-reflexive", type(x).__name__)
    # every node is equal to itself, different classes are unequal
    for n in T.live_nodes(a)[:12]:
        require(n == n, "eq-reflexive-node", type(n).__name__)
    # foreign comparands
    foreign: list[Any] = [None, 0, "x", a.content_id, (a,), object()]
    sib = {"LeafA": "LeafB", "LeafB": "LeafA", "SubLeafA": "LeafA", "Mixed": "InhMixed", "InhMixed": "Mixed"}
    if ea.cls in sib:
        kw = dict(ea.props)
        other_cls = M.cls(sib[ea.cls])
        kids = {}
        for f in M.child_fields(ea.cls):
            v = getattr(a, f.name)
            kids[f.name] = v
        try:
            fnode = other_cls(**{k: v for k, v in kw.items() if k in {f.name for f in M.all_fields(sib[ea.cls])}},
                              **{k: v for k, v in kids.items() if k in {f.name for f in M.all_fields(sib[ea.cls])}},
                              origin=a.origin)
            foreign.append(fnode)
            lab.tag("sibling-or-subclass-comparand")
        except TypeError:
            pass
    for f in foreign:
        require((a == f) is False and (f == a) is False, "eq-foreign", repr(type(f)))
        require((a != f) is True and (f != a) is True, "ne-foreign", repr(type(f)))
    # non-nodes with an `__eq__` of their own that says yes to everything (unittest.mock.ANY, wildcard
    # sentinels, "reference by id" handles): with the node as the left operand the verdict is the node's
    import unittest.mock

    class _Yes:
        def __eq__(self, other: Any) -> bool:
            return True

        def __ne__(self, other: Any) -> bool:
            return False

        __hash__ = None  # type: ignore[assignment]

    class _IdRef(str):
        def __eq__(self, other: Any) -> bool:
            return str.__eq__(self, getattr(other, "id", other))

        def __ne__(self, other: Any) -> bool:
            return not self.__eq__(other)

        __hash__ = str.__hash__

    for f in (unittest.mock.ANY, _Yes(), _IdRef(a.id)):
        require((a == f) is False, "eq-foreign", f"permissive right operand {type(f).__name__}")
        require((a != f) is True, "ne-foreign", f"permissive right operand {type(f).__name__}")
        require([a].count(f) == 0 and (f in (a,)) is False, "eq-foreign", f"container search for {type(f).__name__}")
    # hash constancy: after comparisons, traversals, detach
    b.detach()
    list(c.dfs())
    c.detach_self()
    for n, h in hashes:
        require(hash(n) == h, "hash-changed", type(n).__name__)
    lab.nontrivial = nontrivial
    # ids are names, not content: a copy read back under other ids (hand-edited or written elsewhere)
    # is still == to the tree it was made from
    def rename(x: Any) -> None:
        if isinstance(x, dict):
            if "id" in x and "content_id" in x:
                x["id"] = "renamed-" + str(x["id"])
            for v in x.values():
                rename(v)
        elif isinstance(x, list):
            for v in x:
                rename(v)

    try:
        payload = a.as_dict()
        rename(payload)
        a2 = type(a).as_obj(payload)
    except Exception:  # noqa: BLE001 - serialization is C04's business
        lab.tag("renamed-copy-not-built")
        return
    if a2.content_id == a.content_id and a2 is not a:
        lab.tag("renamed-ids-copy")
        require(a2.id != a.id, "harness-renamed-ids", "")
        require((a2 == a) is True and (a == a2) is True and (a2 != a) is False, "eq-vs-reference",
                "a copy of a read back under other ids (same content, same origins at every position) is not == a")
        a2.detach()


def st_triple(ctx: Ctx):
    g = T.TreeGen(leaves=ctx.pick(8, 14), origin_rate=0.35, strs=None, servals=True, nan=True)
    return st.fixed_dictionaries(
        {
            "tree": st.one_of(g.inner_tree(), g.inner_tree(), g.tree()),
            "v1": st.sampled_from(ORIGIN_VARIANTS[1:] + ["one", "one", "same", "same", "same"]),
            "v2": st.sampled_from(ORIGIN_VARIANTS[1:] + ["same", "same", "same", "same", "one"]),
            "p1": st.integers(0, 200),
            "p2": st.integers(0, 200),
            "n": st.integers(0, 10_000),
            "cmut": st.one_of(st.none(), st.none(), st.none(), st.sampled_from(c01.MUTATIONS)),
            "c_from_b": st.booleans(),
            "fresh": st.booleans(),
            "detach_a": st.booleans(),
        }
    )


def enum_deep(ctx: Ctx):
    for shape in ("one", "items", "child", "mixed"):
        for factor in ((2, 4) if ctx.thorough else (2,)):
            yield {"shape": shape, "factor": factor}


def check_deep(data: dict, lab: Labels) -> None:
    """`at any depth`: chains far deeper than the recursion limit; b is a twin of a, c differs from a
    only in the origin of the bottom leaf"""
    sources = og.make_sources()
    depth = T.deep_depth(data["factor"])
    a = T.build_chain(depth, data["shape"], sources, ["code", 0, 1, 2])[0]
    b = T.build_chain(depth, data["shape"], sources, ["code", 0, 1, 2])[0]
    c = T.build_chain(depth, data["shape"], sources, ["code", 0, 1, 3])[0]
    lab.tag("deep-chain")
    lab.sample_class = "deep"
    require(a.content_id == b.content_id == c.content_id, "harness-deep-content", "")
    ha = hash(a)
    require((a == a) is True and (a != a) is False, "eq-reflexive", f"depth {depth}")
    require((a == b) is True and (b == a) is True and (a != b) is False, "eq-vs-reference",
            f"depth {depth}: equal twins compare unequal")
    require((a == c) is False and (c == a) is False and (a != c) is True and (b == c) is False, "eq-vs-reference",
            f"depth {depth}: an origin difference at the bottom leaf is not seen")
    require(hash(a) == ha, "hash-constant", "")
    lab.nontrivial = True


PARTS = [Part("triples", check_triple, strategy=st_triple, quick=8000, thorough=240000),
         Part("deep", check_deep, enumerate=enum_deep,
              exhaustive_note="4 chain shapes x depth 2x (thorough: and 4x) the recursion limit")]
