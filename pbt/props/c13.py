"""C13 — runtime type checking accepts exactly the well-typed constructions."""
from __future__ import annotations

from collections.abc import Mapping, Sequence
from typing import Any

from hypothesis import strategies as st

from pbt import classfactory as CF
from pbt.pattern_ref import Det
from pbt.runtime import Ctx, Labels, Part, require, short_tb

PROP = "C13"
RULE = (
    "classes generated from 1-5 fields whose annotations come from C11's accepted grammar (depth <= 3: "
    "scalars, None, Any, Literal, Enum, nested NewType, Optional / Union in both spellings, tuples "
    "bare / fixed / variadic, frozenset, Sequence, Mapping, node classes and their unions / tuples), "
    "some fields init=False with a default of the right or the wrong type; values per field come "
    "from a pool (True, False, 0, 1, -1, 2^63, floats, strings, None, enum members, bytes, nodes of "
    "every class, tuples / lists / frozensets / dicts of these) or are derived from the annotation: "
    "a conforming value, optionally with one targeted corruption (wrong element, one element too "
    "many / few, list instead of tuple, None where not allowed, bool for int). Each construction is "
    "run with RUNTIME_TYPE_CHECK on and off. Oracle: reference conformance per field; with the "
    "switch on the construction succeeds iff every field conforms, otherwise InvalidTypes names "
    "exactly the non-conforming fields; with the switch off nothing is validated and, for conforming "
    "input, the node equals the one built with the switch on. is_instance is additionally called "
    "directly on every (value, resolved annotation) pair. payload: nodes constructed by the deserializer "
    "- child entries of one node of a serialized universe tree are exchanged for a node of a foreign "
    "class; reading with the switch on must raise InvalidTypes (possibly wrapped) naming exactly "
    "those fields, the untouched payload reads, with the switch off the foreign nodes are accepted. Pairs the statement leaves open (bool vs "
    "float, bool/int/float crossings inside Literal) are generated but not asserted. non-trivial = "
    "annotation depth >= 2 or a bool / None / container value."
)
ASSUMPTIONS = [
    "reference conformance in pbt/props/c13.py; typing semantics for Sequence (a str is a Sequence[str])",
    "annotations that Python or mashumaro refuse are discarded (counted)",
]
FLOORS = {"constructions:value-False": 0.04, "constructions:fixed-tuple-length-mismatch": 0.003,
          "constructions:all-conform": 0.2, "constructions:some-nonconforming": 0.3}


# --------------------------------------------------------------------------- values


def decode(v: Any, mod: CF.Module) -> Any:
    if isinstance(v, dict):
        if "none" in v:
            return None
        if "enum" in v:
            return getattr(mod.mod.__dict__["Color"], v["enum"])
        if "node" in v:
            return mod.get(v["node"])(n=v.get("n", 0))
        if "tuple" in v:
            return tuple(decode(x, mod) for x in v["tuple"])
        if "list" in v:
            return [decode(x, mod) for x in v["list"]]
        if "fs" in v:
            return frozenset(decode(x, mod) for x in v["fs"])
        if "dict" in v:
            return {decode(k, mod): decode(x, mod) for k, x in v["dict"]}
        if "bytes" in v:
            return v["bytes"].encode()
        if "big" in v:
            return 2**63
        if "ienum" in v:  # an IntEnum member: an int by instance
            return getattr(mod.mod.__dict__["Prio"], v["ienum"])
        if "intsub" in v:  # an instance of a user subclass of int
            return mod.mod.__dict__["Line"](v["intsub"])
        raise ValueError(v)
    return v


def source_of(v: Any, uid_placeholder: str = "{uid}") -> str | None:
    """python source of a value spec for use as a field default (None if not expressible)."""
    if isinstance(v, dict):
        if "none" in v:
            return "None"
        if "enum" in v:
            return f"Color.{v['enum']}"
        if "tuple" in v:
            parts = [source_of(x) for x in v["tuple"]]
            if any(p is None for p in parts):
                return None
            return "(" + ", ".join(parts) + ("," if len(parts) == 1 else "") + ")"
        if "fs" in v:
            parts = [source_of(x) for x in v["fs"]]
            if any(p is None for p in parts):
                return None
            return "frozenset([" + ", ".join(parts) + "])"
        if "bytes" in v:
            return repr(v["bytes"].encode())
        if "big" in v:
            return "2**63"
        return None
    return repr(v)


def conforms(v: Any, a: dict, mod: CF.Module) -> bool | None:
    """True / False / None (left open by the statement)."""
    k = a["k"]
    if k == "annotated":
        return conforms(v, a["of"], mod)
    if k == "scalar":
        n = a["n"]
        if n == "int":
            return isinstance(v, int) and not isinstance(v, bool)
        if n == "float":
            if isinstance(v, bool):
                return None
            return isinstance(v, (int, float))
        if n == "str":
            return isinstance(v, str)
        if n == "bool":
            return isinstance(v, bool)
        if n == "bytes":
            return isinstance(v, bytes)
    if k == "none":
        return v is None
    if k == "any":
        return True
    if k == "enum":
        return isinstance(v, mod.mod.__dict__["Color"])
    if k == "lit":
        try:
            hit = [x for x in a["vals"] if x == v]
        except Exception:  # noqa: BLE001
            return False
        if not hit:
            return False
        if any(type(x) is type(v) for x in hit):
            return True
        return None  # bool / int / float crossing
    if k == "newtype":
        return conforms(v, a["of"], mod)
    if k == "opt":
        return True if v is None else conforms(v, a["of"], mod)
    if k == "union":
        rs = [conforms(v, m, mod) for m in a["of"]]
        if any(r is True for r in rs):
            return True
        return None if any(r is None for r in rs) else False
    if k == "tuple_bare":
        return isinstance(v, tuple)
    if k == "tuple_var":
        return _all(v, tuple, [a["of"]], mod, variadic=True)
    if k == "tuple_fix":
        if not isinstance(v, tuple) or len(v) != len(a["of"]):
            return False
        rs = [conforms(x, t, mod) for x, t in zip(v, a["of"])]
        return False if any(r is False for r in rs) else (None if any(r is None for r in rs) else True)
    if k == "frozenset":
        return _all(v, frozenset, [a["of"]], mod, variadic=True)
    if k == "sequence":
        return _all(v, Sequence, [a["of"]], mod, variadic=True)
    if k == "mapping":
        if not isinstance(v, Mapping):
            return False
        rs = [conforms(x, a["of"][0], mod) for x in v.keys()] + [conforms(x, a["of"][1], mod) for x in v.values()]
        return False if any(r is False for r in rs) else (None if any(r is None for r in rs) else True)
    if k == "node":
        return isinstance(v, mod.get(a["n"]))
    raise ValueError(k)


def _all(v: Any, typ: Any, args: list, mod: CF.Module, variadic: bool) -> bool | None:
    if not isinstance(v, typ):
        return False
    rs = [conforms(x, args[0], mod) for x in v]
    return False if any(r is False for r in rs) else (None if any(r is None for r in rs) else True)


POOL = [True, False, 0, 1, -1, {"big": 1}, 0.0, 1.5, "", "a", "NodeA", {"none": 1}, {"enum": "RED"}, {"enum": "GREEN"},
        {"bytes": "x"}, {"node": "NodeA"}, {"node": "NodeB"}, {"node": "NodeSub"}, {"node": "Later"}, {"node": "FalsyNode"},
        {"tuple": []}, {"tuple": [1]}, {"tuple": [True]}, {"tuple": [1, "a"]}, {"tuple": [{"node": "NodeA"}]},
        {"tuple": [{"node": "NodeA"}, {"node": "NodeB"}]}, {"tuple": [{"none": 1}]}, {"list": []}, {"list": [1]},
        {"list": [{"node": "NodeA"}]}, {"fs": []}, {"fs": [1, 2]}, {"fs": [True]}, {"fs": ["a"]}, {"dict": []},
        {"dict": [["a", 1]]}, {"dict": [[1, "a"]]}, {"tuple": [{"tuple": [1]}]}, {"tuple": [1, 2, 3]},
        False, False, {"tuple": [False]}, {"tuple": [{"none": 1}, {"none": 1}]}, {"fs": [{"tuple": []}, {"tuple": [{"none": 1}]}]}]


ODD_NAMES = ["content", "con", "tent", "on", "i", "d", "c", "o", "n", "t", "e", "nt", "ori", "gin", "rig", "r", "g", "_", "id_", "ids",
             "origins", "content_ids", "source", "position", "fqn", "type", "cls", "node", "parent"]


def gen_conforming(a: dict, d: Det) -> Any:
    k = a["k"]
    if k == "annotated":
        return gen_conforming(a["of"], d)
    if k == "scalar":
        return d.pick({"int": [0, 1, -1, {"big": 1}, 7, {"ienum": "LOW"}, {"intsub": 7}], "float": [0.0, 1.5, 1, 0], "str": ["", "a", "NodeA"],
                       "bool": [True, False, False], "bytes": [{"bytes": "x"}]}[a["n"]])
    if k == "none":
        return {"none": 1}
    if k == "any":
        return d.pick(POOL)
    if k == "enum":
        return {"enum": d.pick(["RED", "GREEN"])}
    if k == "lit":
        return d.pick(a["vals"])
    if k == "newtype":
        return gen_conforming(a["of"], d)
    if k == "opt":
        return {"none": 1} if d.chance(1, 3) else gen_conforming(a["of"], d)
    if k == "union":
        return gen_conforming(d.pick(a["of"]), d)
    if k == "tuple_bare":
        return {"tuple": [d.pick(POOL) for _ in range(d.next(3))]}
    if k == "tuple_var":
        return {"tuple": [gen_conforming(a["of"], d) for _ in range(d.next(4))]}
    if k == "tuple_fix":
        return {"tuple": [gen_conforming(t, d) for t in a["of"]]}
    if k == "frozenset":
        xs = [gen_conforming(a["of"], d) for _ in range(d.next(3))]
        return {"fs": xs} if all(_hashable(x) for x in xs) else {"fs": []}
    if k == "sequence":
        xs = [gen_conforming(a["of"], d) for _ in range(d.next(3))]
        return {"tuple": xs} if d.chance(1, 2) else {"list": xs}
    if k == "mapping":
        ks = [gen_conforming(a["of"][0], d) for _ in range(d.next(3))]
        ks = [x for x in ks if _hashable(x)]
        return {"dict": [[x, gen_conforming(a["of"][1], d)] for x in ks]}
    if k == "node":
        return {"node": {"NodeA": d.pick(["NodeA", "NodeSub", "FalsyNode"]), "NodeB": "NodeB", "NodeSub": "NodeSub",
                         "Later": "Later"}[a["n"]]}
    raise ValueError(k)


def _hashable(x: Any) -> bool:
    if isinstance(x, dict):
        if "list" in x or "dict" in x:
            return False
        for key in ("tuple", "fs"):
            if key in x:
                return all(_hashable(y) for y in x[key])
    return True


def corrupt(v: Any, d: Det) -> Any:
    """one targeted corruption of a (probably conforming) value."""
    c = d.next(7)
    if isinstance(v, dict) and "tuple" in v:
        xs = list(v["tuple"])
        if c == 0:
            return {"tuple": [*xs, d.pick(POOL)]}  # one too many
        if c == 1 and xs:
            return {"tuple": xs[:-1]}  # one too few
        if c == 2:
            return {"list": xs}  # list instead of tuple
        if c == 3 and xs:
            i = d.next(len(xs))
            xs[i] = corrupt(xs[i], d)
            return {"tuple": xs}
        if c == 4 and xs:
            xs[d.next(len(xs))] = {"none": 1}
            return {"tuple": xs}
        return {"tuple": [*xs, {"tuple": xs}]}
    if isinstance(v, dict) and "fs" in v:
        return {"fs": [*v["fs"], d.pick([True, "zz", 3.5])]} if c < 4 else {"tuple": v["fs"]}
    if isinstance(v, dict) and "node" in v:
        return d.pick([{"node": "NodeB"}, {"none": 1}, {"tuple": [v]}, "NodeA", {"node": "Later"}])
    if isinstance(v, bool):
        return d.pick([int(v), {"none": 1}, str(v)])
    if isinstance(v, int):
        return d.pick([True, False, float(v), str(v), {"none": 1}])
    if isinstance(v, dict) and "none" in v:
        return d.pick([0, False, "", {"tuple": []}])
    return d.pick([{"none": 1}, True, False, 0, {"tuple": [v]}])


# ---------------------------------------------------------------------------------- check


def check_construction(data: dict, lab: Labels) -> None:
    from pyoak import config
    from pyoak.error import InvalidFieldAnnotations, InvalidTypes
    from pyoak.types import get_cls_all_fields
    from pyoak.typing import is_instance

    d = Det(data["seed"])
    fields = []
    values: dict[str, Any] = {}
    for i, f in enumerate(data["fields"]):
        a = f["ann"]
        mode = f["mode"] % 4  # 0 pool, 1 conforming, 2/3 conforming + corruption
        if mode == 0:
            v = POOL[f["pick"] % len(POOL)]
        else:
            v = gen_conforming(a, d)
            if mode >= 2:
                a1 = CF.strip_newtype(a)
                inner = CF.strip_newtype(a1["of"]) if a1["k"] == "tuple_var" else None
                if inner is not None and inner["k"] == "scalar" and inner["n"] in ("int", "bool") and d.chance(1, 2):
                    # breadth: a long homogeneous tuple whose only offender is `==` to an earlier, conforming
                    # element (True after 1, 1 after True) - every element counts, not every distinct value
                    n_el = 33 + d.next(30)
                    v = {"tuple": [*range(n_el), True]} if inner["n"] == "int" else {"tuple": [*([True, False] * (n_el // 2 + 1)), 1]}
                    lab.tag("long-tuple-offender-equal-to-earlier-element")
                elif CF.strip_newtype(a)["k"] == "tuple_fix" and isinstance(v, dict) and "tuple" in v and d.chance(4, 5):
                    xs = v["tuple"]
                    if d.chance(1, 3):  # the very same items in a list: right length, right items, not a tuple
                        v = {"list": list(xs)}
                        lab.tag("fixed-tuple-items-in-a-list")
                    else:  # exact-length rule: one element too many / too few
                        v = {"tuple": [*xs, xs[-1]]} if d.chance(1, 2) else {"tuple": xs[:-1]}
                else:
                    v = corrupt(v, d)
        # half of the fields carry short names that are fragments of the library's own field names
        name = f"f{i}" if f["pick"] % 2 else ODD_NAMES[(f["pick"] // 2 + i * 5) % len(ODD_NAMES)]
        if name in values:
            name = f"f{i}"
        spec = {"name": name, "ann": a}
        if f.get("noninit"):
            src = source_of(v)
            if src is not None:
                spec["default"] = src
                spec["flags"] = {"init": False, "compare": False} if f["pick"] % 3 == 0 else {"init": False}
                spec["noninit"] = True
        fields.append(spec)
        values[name] = v
    split = data.get("split", 0) % (len(fields) + 1)
    if split and split < len(fields):
        # a two-level hierarchy: the first `split` fields live in the base class, which is built
        # (under the switch) before the subclass is used for the first time
        base_fields = list(fields[:split])
        own_fields = list(fields[split:])
        if data.get("override") and not fields[0].get("noninit"):
            # the subclass declares the base's first field again with another annotation: its own annotation
            # is the one that counts (the value is drawn for it)
            f0 = fields[0]
            other = {"k": "scalar", "n": "str"} if CF.strip_newtype(f0["ann"]) != {"k": "scalar", "n": "str"} else {"k": "scalar", "n": "int"}
            redeclared = {"name": f0["name"], "ann": other}
            values[f0["name"]] = gen_conforming(other, d) if data["override"] % 2 else gen_conforming(f0["ann"], d)
            fields[0] = redeclared
            own_fields.append(redeclared)
            lab.tag("subclass-redeclares-a-field-with-another-annotation")
        classes = [{"name": "B0", "base": None, "fields": base_fields},
                   {"name": "C0", "base": "B0", "fields": own_fields}]
        lab.tag("hierarchy-base-first")
    else:
        split = 0
        classes = [{"name": "C0", "base": None, "fields": fields}]
    mod = CF.build(classes, postponed=bool(data.get("postponed")))
    try:
        if mod.error is not None:
            if isinstance(mod.error, InvalidFieldAnnotations):
                require(False, "accepted-grammar-annotation-rejected", f"{short_tb(mod.error)}")
            lab.tag("python-invalid")
            return
        cls = mod.get("C0")
        try:
            types = {f.name: ti.resolved_type for f, ti in get_cls_all_fields(cls).items()}
        except InvalidFieldAnnotations as e:
            require(False, "accepted-grammar-annotation-rejected", str(e)[:300])
        live = {n: decode(v, mod) for n, v in values.items()}
        kwargs = {f["name"]: live[f["name"]] for f in fields if not f.get("noninit")}
        if split:
            config.RUNTIME_TYPE_CHECK = True
            try:
                mod.get("B0")(**{f["name"]: live[f["name"]] for f in fields[:split] if not f.get("noninit")})
            except InvalidTypes:
                pass
            finally:
                config.RUNTIME_TYPE_CHECK = False
        verdicts = {f["name"]: conforms(live[f["name"]], f["ann"], mod) for f in fields}
        open_ = [n for n, r in verdicts.items() if r is None]
        bad = sorted(n for n, r in verdicts.items() if r is False)
        # the inherited keyword-only `origin: Origin` field is validated like every other field
        okind = data.get("origin", 0) % 4
        bad_origin = False
        if okind:
            from pyoak.origin import CodeOrigin, MemoryTextSource, get_code_range

            src = MemoryTextSource(_raw="abc", source_uri="c13")
            kwargs["origin"] = [None, CodeOrigin(source=src, position=get_code_range(0, 1, 0, 1, 1, 1)), src, None][okind]
            bad_origin = okind >= 2
            lab.tag("origin-given-" + ("ill-typed" if bad_origin else "well-typed"))
            if bad_origin:
                bad = sorted([*bad, "origin"])
        for f in fields:
            v = live[f["name"]]
            lab.tag_if(v is False, "value-False")
            lab.tag_if(v is True, "value-True")
            lab.tag_if(v is None, "value-None")
            a0 = CF.strip_newtype(f["ann"])
            lab.tag_if(a0["k"] == "tuple_fix" and isinstance(v, tuple) and len(v) != len(a0["of"]), "fixed-tuple-length-mismatch")
            lab.tag_if(CF.contains(f["ann"], lambda x: x["k"] == "newtype"), "newtype")
            lab.tag_if(CF.contains(f["ann"], lambda x: x["k"] == "mapping"), "mapping")
        # direct is_instance on every pair
        for f in fields:
            exp = verdicts[f["name"]]
            if exp is None:
                lab.count("unspecified-pairs")
                continue
            try:
                got = is_instance(live[f["name"]], types[f["name"]])
            except Exception as e:  # noqa: BLE001
                require(False, "is_instance-raised", f"is_instance({live[f['name']]!r:.80}, {types[f['name']]!r:.120}): {short_tb(e)}")
            require(got is exp, "is_instance",
                    f"is_instance({live[f['name']]!r:.80}, {types[f['name']]!r:.160}) -> {got}, reference {exp}")
            lab.count("pairs")
        # validating a value must not make a later, different value of the same shape pass: a
        # well-typed tuple is checked and dropped, then an ill-typed tuple of the same length (very
        # likely allocated at the same address) is checked against the same annotation
        for f in fields:
            v_ok = live[f["name"]]
            if not (isinstance(v_ok, tuple) and v_ok and verdicts[f["name"]] is True):
                continue
            t_ann = types[f["name"]]
            for attempt in range(3):
                fresh_ok = tuple(list(v_ok))
                require(is_instance(fresh_ok, t_ann) is True, "is_instance", f"well-typed tuple rejected: {fresh_ok!r:.80}")
                n_el = len(fresh_ok)
                del fresh_ok
                bad_t = tuple([3 + 4j, *v_ok[1:]])[:n_el]
                exp_bad = conforms(bad_t, f["ann"], mod)
                if exp_bad is None:
                    break
                got_bad = is_instance(bad_t, t_ann)
                require(got_bad is exp_bad, "is_instance",
                        f"is_instance({bad_t!r:.80}, {t_ann!r:.120}) -> {got_bad} right after a well-typed tuple of that "
                        f"length was validated and dropped; reference {exp_bad}")
                del bad_t
            lab.tag("tuple-revalidated-after-drop")
        lab.nontrivial = any(CF.depth(f["ann"]) >= 2 for f in fields) or any(
            isinstance(v, (bool, tuple, list, frozenset, dict)) or v is None for v in live.values())
        if open_:
            lab.tag("has-unspecified-pair")
            return
        lab.tag("all-conform" if not bad else "some-nonconforming")
        # construction with the switch on
        config.RUNTIME_TYPE_CHECK = True
        node_on = None
        try:
            node_on = cls(**kwargs)
            require(not bad, "ill-typed-construction-accepted", f"fields {bad} do not conform: "
                    + "; ".join(f"{n}={kwargs.get(n, live.get(n))!r:.60} : {types[n]!r:.100}" for n in bad))
        except InvalidTypes as e:
            got_bad = sorted(f.name for f in e.invalid_fields)
            require(bool(bad), "well-typed-construction-rejected", f"InvalidTypes for {got_bad}: "
                    + "; ".join(f"{n}={kwargs.get(n, live.get(n))!r:.60} : {types[n]!r:.100}" for n in got_bad))
            require(got_bad == bad, "invalid_fields", f"reported {got_bad}, reference {bad}")
        finally:
            config.RUNTIME_TYPE_CHECK = False
        # switch off: nothing is validated; for conforming input the node is the same
        child_fields = {f["name"] for f in fields if CF.classify_ref(f["ann"]) != "property"}
        if (not bad or not (set(bad) & child_fields)) and not bad_origin:
            try:
                node_off = cls(**kwargs)
            except InvalidTypes:
                require(False, "validation-with-switch-off", f"non-conforming fields {bad}")
            except Exception:  # noqa: BLE001
                require(bool(bad), "well-typed-construction-fails-with-switch-off", "")
                node_off = None  # ill-typed junk may break elsewhere; that is not type validation
                lab.tag("switch-off-junk-failed-elsewhere")
            if bad and node_off is not None:
                lab.tag("switch-off-accepts-ill-typed")
            if node_on is not None and node_off is not None:
                require(type(node_off) is type(node_on) and node_off.content_id == node_on.content_id,
                        "switch-changes-node", f"{node_on.content_id} vs {node_off.content_id}")
                for f in fields:
                    if not f.get("noninit"):
                        require(getattr(node_off, f["name"]) is live[f["name"]], "switch-off-field-value", f["name"])
    finally:
        mod.close()


def _hashable_live(v: Any) -> bool:
    return True


def st_construction(ctx: Ctx):
    sc = lambda n: {"k": "scalar", "n": n}  # noqa: E731
    # unions whose members are related by subclassing (bool is an int, an int is acceptable for float)
    related = st.sampled_from([
        {"k": "union", "of": [sc("int"), sc("bool")], "pipe": True},
        {"k": "opt", "of": {"k": "union", "of": [sc("bool"), sc("int")], "pipe": False}},
        {"k": "union", "of": [sc("bool"), sc("str")], "pipe": True},
        {"k": "tuple_var", "of": {"k": "union", "of": [sc("int"), sc("bool")], "pipe": True}},
        {"k": "union", "of": [sc("float"), sc("int"), {"k": "none"}], "pipe": True},
        {"k": "tuple_bare", "typing": True},
        {"k": "opt", "of": {"k": "tuple_bare", "typing": True}},
        {"k": "opt", "of": sc("float")},  # (an int is acceptable for the float member)
        {"k": "union", "of": [sc("float"), sc("str")], "pipe": True},
        {"k": "tuple_var", "of": {"k": "opt", "of": sc("float")}},
        {"k": "tuple_fix", "of": [sc("int"), sc("str")]},
        {"k": "tuple_fix", "of": [sc("int"), sc("int")]},
        {"k": "opt", "of": {"k": "tuple_fix", "of": [sc("str"), sc("str"), sc("bool")]}},
    ])
    ann = st.one_of(CF.st_annotation(3, allow_forward=True, allow_rejected=False), related).filter(
        lambda a: CF.classify_ref(a) in ("child", "property"))
    fld = st.fixed_dictionaries({"ann": ann, "mode": st.sampled_from([1, 2, 3, 0, 1, 2]), "pick": st.integers(0, 200),
                                 "noninit": st.sampled_from([False, False, False, True])})
    return st.fixed_dictionaries({"fields": st.lists(fld, min_size=1, max_size=5), "seed": st.integers(0, 2**31),
                                  "postponed": st.booleans(), "split": st.sampled_from([0, 0, 1, 2, 3]),
                                  "origin": st.sampled_from([0, 0, 0, 1, 2, 3]), "override": st.sampled_from([0, 0, 1, 2])})


_STRANGER: list = []


def stranger_cls():
    """a node class outside the universe's hierarchy: conforms to no child field of the universe."""
    if not _STRANGER:
        from dataclasses import dataclass

        from pyoak.node import ASTNode

        @dataclass(frozen=True)
        class C13Stranger(ASTNode):
            n: int

        _STRANGER.append(C13Stranger)
    return _STRANGER[0]


def check_payload(data: dict, lab: Labels) -> None:
    """nodes are also constructed by the deserializer: a payload in which child entries of one node
    were exchanged for a node of a class the field does not admit is read with the switch on
    (InvalidTypes naming exactly the exchanged fields, possibly wrapped by the serialization library
    when the node is not the payload's root) and off (nothing validated)."""
    import copy
    import json

    from pyoak import config
    from pyoak.error import InvalidTypes
    from pyoak.node import ASTNode

    from pbt import models_v2 as M
    from pbt import trees as T

    S = stranger_cls()
    b, root_e, ex = T.build(data["tree"], allow_share=False)
    root = b.root
    cls = type(root)
    good = root.as_dict()
    parent: dict = {root_e.uid: None}
    pos = list(T.positions(root_e))
    for c, p, fn, i in pos:
        parent[c.uid] = (p, fn, i)
    inner = [e for e in T.nodes_preorder(root_e) if any(True for _ in e.children())]
    if not inner:
        lab.tag("no-inner-node")
        return
    pe = inner[data["parent"] % len(inner)]
    path = []
    cur = pe
    while parent[cur.uid] is not None:
        p, fn, i = parent[cur.uid]
        path.append((fn, i))
        cur = p
    slots = [(fn, i) for c, p, fn, i in pos if p is pe]
    chosen = [sl for k, sl in enumerate(slots) if data["mask"] >> (k % 16) & 1] or [slots[data["mask"] % len(slots)]]
    strangers = []
    bad = copy.deepcopy(good)
    at = bad
    for fn, i in reversed(path):
        at = at[fn] if i is None else at[fn][i]
    for k, (fn, i) in enumerate(chosen):
        sn = S(n=data["base"] + k)
        strangers.append(sn)
        if i is None:
            at[fn] = sn.as_dict()
        else:
            at[fn][i] = sn.as_dict()
    expected = sorted({fn for fn, _ in chosen})
    for n in T.live_nodes(root):
        n.detach_self()
    for sn in strangers:
        sn.detach_self()
    del strangers
    fmt = data["fmt"] % 3

    def read(payload: dict):
        if fmt == 0:
            return cls.as_obj(copy.deepcopy(payload))
        if fmt == 1:
            return ASTNode.as_obj(copy.deepcopy(payload))
        return cls.from_json(json.dumps(payload))

    def drop(payload: Any) -> None:
        if isinstance(payload, dict):
            n = ASTNode.get_any(payload["id"]) if isinstance(payload.get("id"), str) else None
            if n is not None:
                n.detach_self()
            for v in payload.values():
                drop(v)
        elif isinstance(payload, list):
            for v in payload:
                drop(v)

    lab.tag_if(pe is not root_e, "ill-typed-node-below-the-payload-root")
    lab.tag_if(len(expected) >= 2, "several-fields-exchanged")
    lab.tag_if(any(i is not None for _, i in chosen), "tuple-element-exchanged")
    config.RUNTIME_TYPE_CHECK = True
    try:
        # the untouched payload is well-typed
        try:
            again = read(good)
        except InvalidTypes as e:
            require(False, "well-typed-construction-rejected", f"payload of a tree built by hand: {sorted(f.name for f in e.invalid_fields)}")
        require(again.content_id == root.content_id, "payload-roundtrip", "")
        del again
        drop(good)
        got: Any = None
        try:
            built = read(bad)
        except Exception as e:  # noqa: BLE001
            c: Any = e
            while c is not None and not isinstance(c, InvalidTypes):
                c = c.__cause__ or c.__context__
            require(c is not None, "ill-typed-construction-accepted",
                    f"reading failed without type validation: {short_tb(e)}")
            got = sorted(f.name for f in c.invalid_fields)
        else:
            require(False, "ill-typed-construction-accepted",
                    f"a {pe.cls} with a foreign node in {expected} was built from a payload with the switch on: {built!r:.120}")
        require(got == expected, "invalid_fields", f"reported {got}, reference {expected} ({pe.cls} read from a payload)")
    finally:
        config.RUNTIME_TYPE_CHECK = False
    drop(bad)
    # switch off: nothing is validated
    try:
        built = read(bad)
    except InvalidTypes:
        require(False, "validation-with-switch-off", f"payload with foreign nodes in {expected}")
    node = built
    for fn, i in reversed(path):
        node = getattr(node, fn) if i is None else getattr(node, fn)[i]
    for fn, i in chosen:
        v = getattr(node, fn) if i is None else getattr(node, fn)[i]
        require(type(v) is S, "switch-off-field-value", f"{fn}[{i}] is a {type(v).__name__}")
    lab.tag("switch-off-accepts-ill-typed")
    lab.nontrivial = True


def st_payload(ctx: Ctx):
    from pbt import trees as T

    g = T.TreeGen(leaves=ctx.pick(6, 9), share=False, twins=False, origin_rate=0.1, servals=True, frozensets=False, wide=False)
    return st.fixed_dictionaries({"tree": g.inner_tree(), "parent": st.integers(0, 40), "mask": st.integers(0, 2**16 - 1),
                                  "base": st.integers(0, 10**6), "fmt": st.integers(0, 2)})


PARTS = [Part("payload", check_payload, strategy=st_payload, quick=800, thorough=20000),
              Part("constructions", check_construction, strategy=st_construction, quick=6000, thorough=120000)]
