"""C05 — traversals visit exactly the descendants, in order, with exact position info."""
from __future__ import annotations

from collections import Counter, deque
from typing import Any

from hypothesis import strategies as st

from pbt import models_v2 as M
from pbt import trees as T
from pbt.runtime import Ctx, FalsyCallable, Labels, Part, require

PROP = "C05"
RULE = (
    "Hypothesis tree specs over the v2 universe (single/optional/union/variadic/fixed-tuple/"
    "inherited child fields, shared node objects, falsy children, tuples up to 14 wide); "
    "predicates are subsets of the tree's position classes (node, parent, field, index): all "
    "2^n x 2^n (prune, filter) pairs when n <= 4 (6 thorough), otherwise 3 fixed + 12 drawn "
    "pairs; each pair is run through dfs, dfs(bottom_up), bfs and compared as a sequence with "
    "a recursive reference traversal; gather() over class subsets x exact_type x extra filter x "
    "prune. non-trivial = tree depth >= 2 and some pair prunes a non-leaf or filters out an inner "
    "node; distinct = distinct canonical (tree, masks) specs."
)
ASSUMPTIONS = [
    "reference traversal in pbt/props/c05.py over the expanded spec graph (declaration order from the class table)",
    "dataclasses.fields order is the declaration order",
]
FLOORS = {"trees:falsy-child": 0.08, "trees:shared": 0.10, "trees:wide>=11": 0.05, "trees:NONTRIVIAL": 0.4}

GATHER_CLASSES = ["ASTNode", *M.CLASS_NAMES]


def st_case(ctx: Ctx):
    g = T.TreeGen(leaves=ctx.pick(10, 16), refs=True, noinit=True, stale_pairs=True)
    masks = st.lists(st.tuples(st.integers(0, 2**40), st.integers(0, 2**40)).map(list), min_size=12, max_size=12)
    # (class mask 0: an explicitly empty tuple of classes selects nothing)
    gmask = st.lists(st.tuples(st.integers(0, 2 ** len(GATHER_CLASSES) - 1), st.booleans(),
                               st.integers(0, 2**40), st.integers(0, 2**40)).map(list), min_size=3, max_size=3)
    return st.fixed_dictionaries({"tree": g.tree(), "masks": masks, "gather": gmask})


# ----------------------------------------------------------------------------- reference


def ref_pre(e: T.ENode, prune, flt, out: list, offered: list) -> None:
    for c, fn, i in e.children():
        pos = (c, e, fn, i)
        offered.append(pos)
        if flt(pos):
            out.append(pos)
        if not prune(pos):
            ref_pre(c, prune, flt, out, offered)


def ref_post(e: T.ENode, prune, flt, out: list) -> None:
    for c, fn, i in e.children():
        pos = (c, e, fn, i)
        if not prune(pos):
            ref_post(c, prune, flt, out)
        if flt(pos):
            out.append(pos)


def ref_bfs(e: T.ENode, prune, flt) -> list:
    out = []
    q = deque((c, e, fn, i) for c, fn, i in e.children())
    while q:
        pos = q.popleft()
        if flt(pos):
            out.append(pos)
        if not prune(pos):
            q.extend((c, pos[0], fn, i) for c, fn, i in pos[0].children())
    return out


# ----------------------------------------------------------------------------- check


def check_tree(data: dict, lab: Labels) -> None:
    thorough = data.get("thorough", False)
    b, root_e, ex = T.build(data["tree"])
    root = b.root
    allpos = T.positions(root_e)
    uid_of_live = {id(n): u for u, n in b.live.items()}

    def key(pos) -> tuple:
        return (pos[0].uid, pos[1].uid, pos[2], pos[3])

    def live_key(info) -> tuple:
        return (uid_of_live.get(id(info.node), -1), uid_of_live.get(id(info.parent), -1), info.field.name, info.findex)

    classes = sorted({key(p) for p in allpos}, key=lambda k: (k[1], k[2], -1 if k[3] is None else k[3], k[0]))
    n = len(classes)
    cidx = {k: i for i, k in enumerate(classes)}
    depth = T.depth_of_tree(root_e)
    lab.tag(f"depth{min(depth, 5)}")
    lab.tag_if(ex.n_shared > 0, "shared")
    lab.tag_if(any(p[0].cls == "Falsy" and p[3] is None for p in allpos), "falsy-child")
    lab.tag_if(any((p[3] or 0) >= 10 for p in allpos), "wide>=11")
    lab.tag_if(any(p[1].cls == "InhMixed" for p in allpos), "inherited-fields")
    lab.tag_if(any(p[2] == "pair" for p in allpos), "fixed-tuple")

    # direct children
    exp_children = [b.of(c) for c, _, _ in root_e.children()]
    if root_e.cls != "Kids":  # (a class that declares a field called `children` has that field there instead)
        got_children = list(root.children)
        require(len(got_children) == len(exp_children) and all(x is y for x, y in zip(got_children, exp_children)),
                "children", f"expected {len(exp_children)} got {len(got_children)}")
    got_cn = list(root.get_child_nodes())
    require(len(got_cn) == len(exp_children) and all(x is y for x, y in zip(got_cn, exp_children)),
            "get_child_nodes", f"expected {len(exp_children)} got {len(got_cn)}")

    full = (1 << n) - 1
    if n <= (6 if thorough else 4):
        pairs = [(p, f) for p in range(full + 1) for f in range(full + 1)]
        lab.tag("all-predicate-pairs")
    else:
        pairs = [(0, full), (full, full), (0, 0)] + [(p & full, f & full) for p, f in data["masks"]]
    has_kids = {k: any(True for _ in p[0].children()) for p in allpos for k in [key(p)]}
    nontrivial = False

    for pm, fm in pairs:
        prune_e = lambda pos: bool(pm >> cidx[key(pos)] & 1)  # noqa: E731
        flt_e = lambda pos: bool(fm >> cidx[key(pos)] & 1)  # noqa: E731
        calls_f: list = []
        calls_p: list = []

        reenter = (pm + 2 * fm) % 5 == 1  # the predicates walk the tree themselves while the outer walk is running

        def prune_l(info, _pm=pm):
            if reenter:
                list(info.node.dfs(bottom_up=True))
                list(root.bfs(prune=lambda i: i.node is info.node))
            k = live_key(info)
            calls_p.append(k)
            require(k in cidx, "prune-offered-unknown-position", k)
            return bool(_pm >> cidx[k] & 1)

        def flt_l(info, _fm=fm):
            if reenter:
                list(root.dfs(filter=lambda i: i.node is info.node))
                list(info.parent.gather(type(info.node)))
            k = live_key(info)
            calls_f.append(k)
            require(k in cidx, "filter-offered-unknown-position", k)
            return bool(_fm >> cidx[k] & 1)

        # every third pair passes the predicates as falsy callables
        P_, F_ = (FalsyCallable(prune_l), FalsyCallable(flt_l)) if (pm + fm) % 3 == 0 else (prune_l, flt_l)
        exp_pre: list = []
        offered: list = []
        ref_pre(root_e, prune_e, flt_e, exp_pre, offered)
        exp_post: list = []
        ref_post(root_e, prune_e, flt_e, exp_post)
        exp_bfs = ref_bfs(root_e, prune_e, flt_e)
        # the documented parameter order is part of the interface: every other pair is passed by position
        positional = (pm ^ fm) % 2 == 1
        lab.tag_if(positional, "predicates-by-position")
        for name, exp, it in (
            ("dfs", exp_pre, (lambda: root.dfs(P_, F_)) if positional else (lambda: root.dfs(prune=P_, filter=F_))),
            ("dfs-bottom-up", exp_post, (lambda: root.dfs(P_, F_, True)) if positional
             else (lambda: root.dfs(prune=P_, filter=F_, bottom_up=True))),
            ("bfs", exp_bfs, (lambda: root.bfs(P_, F_)) if positional else (lambda: root.bfs(filter=F_, prune=P_))),
        ):
            calls_f.clear()
            calls_p.clear()
            got = list(it())
            _compare(name, got, exp, b, (pm, fm))
            require(Counter(calls_f) == Counter(key(p) for p in offered), name + "-filter-offered",
                    f"masks={pm},{fm}: filter saw {len(calls_f)} positions, expected {len(offered)}")
        lab.count("predicate-pairs")
        if any((pm >> cidx[k] & 1) and has_kids[k] for k in cidx) or any(
            not (fm >> cidx[k] & 1) and has_kids[k] for k in cidx
        ):
            nontrivial = True
    # no predicates at all
    _compare("dfs-plain", list(root.dfs()), allpos, b, None)
    post: list = []
    ref_post(root_e, lambda p: False, lambda p: True, post)
    _compare("dfs-bottom-up-plain", list(root.dfs(bottom_up=True)), post, b, None)
    _compare("bfs-plain", list(root.bfs()), ref_bfs(root_e, lambda p: False, lambda p: True), b, None)

    # gather
    for cmask, exact, pm, fm in data["gather"]:
        names = [c for i, c in enumerate(GATHER_CLASSES) if cmask >> i & 1]
        clss = tuple(M.cls(c) for c in names)
        pm &= full
        fm &= full
        prune_e = lambda pos: bool(pm >> cidx[key(pos)] & 1)  # noqa: E731

        def sel(pos) -> bool:
            ok = pos[0].cls in names if exact else any(M.is_subclass(pos[0].cls, c) for c in names)
            return ok and bool(fm >> cidx[key(pos)] & 1)

        exp: list = []
        ref_pre(root_e, prune_e, sel, exp, [])
        arg: Any = clss[0] if len(clss) == 1 else clss
        asked: list = []

        def extra(info, fm=fm, asked=asked):  # noqa: ANN001
            asked.append(info.node)
            return bool(fm >> cidx[live_key(info)] & 1)

        got = list(root.gather(arg, exact_type=exact, extra_filter=extra,
                               prune=lambda info: bool(pm >> cidx[live_key(info)] & 1)))
        # the extra filter restricts the stream of the requested classes: it is written against them and is
        # not consulted for anything else
        for nd in asked:
            require((type(nd) in clss) if exact else isinstance(nd, clss), "gather",
                    f"classes={names} exact={exact}: extra_filter was called with a {type(nd).__name__}")
        require(len(got) == len(exp) and all(g is b.of(p[0]) for g, p in zip(got, exp)), "gather",
                f"classes={names} exact={exact} masks={pm},{fm}: expected {[p[0].uid for p in exp]} "
                f"got {[uid_of_live.get(id(g), -1) for g in got]}")
        lab.count("gathers")
        lab.tag_if(not names, "gather-empty-class-tuple")
    # gather by an abstract marker class the node classes are registered with (isinstance, not the MRO)
    exp_m: list = []
    ref_pre(root_e, lambda p: False, lambda p: any(M.is_subclass(p[0].cls, c) for c in M.MARKED), exp_m, [])
    got_m = list(root.gather(M.load().Marker))
    require(len(got_m) == len(exp_m) and all(g is b.of(p[0]) for g, p in zip(got_m, exp_m)), "gather",
            f"registered marker class: {len(got_m)} nodes, expected {len(exp_m)}")
    require(list(root.gather(M.load().Marker, exact_type=True)) == [], "gather", "exact type of an abstract marker")
    lab.nontrivial = depth >= 3 and nontrivial
    if data.get("copy"):
        # a deep copy (objects made without the constructor, same ids as their originals, both alive):
        # walking the copy yields the copy's own objects
        import copy

        cp = copy.deepcopy(root)
        twin_of: dict[int, Any] = {}

        def pair(o: Any, c: Any) -> None:
            twin_of[id(o)] = c
            oc, cc = T.live_children(o), T.live_children(c)
            require(len(oc) == len(cc), "harness-deepcopy-shape", "")
            for (x, _, _), (y, _, _) in zip(oc, cc):
                pair(x, y)

        pair(root, cp)
        require(cp is not root and all(twin_of[id(b.of(e))] is not b.of(e) for e in T.nodes_preorder(root_e)), "harness-deepcopy", "")
        lab.tag("deep-copied-tree")

        def same(name: str, got: list, exp: list) -> None:
            require(len(got) == len(exp), name, f"{len(got)} positions, expected {len(exp)}")
            for g, (c, par, fn, idx) in zip(got, exp):
                ec, ep = twin_of[id(b.of(c))], twin_of[id(b.of(par))]
                require(g.node is ec and g.parent is ep and g.field.name == fn and g.findex == idx, name,
                        f"{fn}[{idx}]: yields an object that is not the copy's own node / parent")
                v = getattr(g.parent, fn)
                require((v[idx] is g.node) if idx is not None else (v is g.node), name + "-position-info", (fn, idx))

        same("dfs-on-copy", list(cp.dfs()), allpos)
        same("dfs-bottom-up-on-copy", list(cp.dfs(bottom_up=True)), post)
        same("bfs-on-copy", list(cp.bfs()), ref_bfs(root_e, lambda p: False, lambda p: True))
        _compare("dfs-plain-after-copy", list(root.dfs()), allpos, b, None)


def _compare(name: str, got: list, exp: list, b: T.Built, masks: Any) -> None:
    def show_e(ps):
        return [(p[0].uid, p[1].uid, p[2], p[3]) for p in ps][:30]

    if len(got) != len(exp):
        uid = {id(n): u for u, n in b.live.items()}
        require(False, name + "-sequence",
                f"masks={masks}: expected {show_e(exp)} got "
                f"{[(uid.get(id(g.node)), uid.get(id(g.parent)), g.field.name, g.findex) for g in got][:30]}")
    for g, p in zip(got, exp):
        c, par, fn, idx = p
        ok = g.node is b.of(c) and g.parent is b.of(par) and g.field.name == fn and g.findex == idx
        if not ok:
            uid = {id(n): u for u, n in b.live.items()}
            require(False, name + "-sequence",
                    f"masks={masks}: expected {show_e(exp)} got "
                    f"{[(uid.get(id(x.node)), uid.get(id(x.parent)), x.field.name, x.findex) for x in got][:30]}")
        require(g.field is type(g.parent).__dataclass_fields__[fn], name + "-field-object", fn)
        v = getattr(g.parent, fn)
        require((v[idx] is g.node) if idx is not None else (v is g.node), name + "-position-info", (fn, idx))


def st_case_t(ctx: Ctx):
    return st.tuples(st_case(ctx), st.sampled_from([False, False, False, True])).map(
        lambda t: {**t[0], "thorough": ctx.thorough, "copy": t[1]})


def enum_deep(ctx: Ctx):
    for shape in ("one", "items", "child", "mixed"):
        for factor in ((2, 4) if ctx.thorough else (2,)):
            for cut in (0, 1, 2):
                yield {"shape": shape, "factor": factor, "cut": cut}


def check_deep(data: dict, lab: Labels) -> None:
    """a chain far deeper than the recursion limit: every walker still yields every position"""
    from pbt import origins as og

    depth = T.deep_depth(data["factor"])
    nodes = T.build_chain(depth, data["shape"], og.make_sources())
    root = nodes[0]
    pos = T.chain_positions(nodes)
    lab.tag("deep-chain")
    lab.sample_class = "deep"

    def same(name: str, got: list, exp: list) -> None:
        require(len(got) == len(exp), name + "-sequence", f"depth {depth}: {len(got)} positions, expected {len(exp)}")
        for g, (c, p, fn, i) in zip(got, exp):
            require(g.node is c and g.parent is p and g.field.name == fn and g.findex == i, name + "-sequence",
                    f"depth {depth}: wrong position info")

    cut = data["cut"]
    if cut == 0:
        same("dfs-deep", list(root.dfs()), pos)
        same("dfs-bottom-up-deep", list(root.dfs(bottom_up=True)), pos[::-1])
        same("bfs-deep", list(root.bfs()), pos)
        got = list(root.gather(M.cls("LeafA")))
        require(len(got) == 1 and got[0] is nodes[-1], "gather-deep", f"depth {depth}")
        lab.nontrivial = True
        return
    # prune (cut == 1) / filter (cut == 2) below the middle
    mid = nodes[len(nodes) // 2]
    below = {id(n) for n in nodes[len(nodes) // 2 + 1:]}
    if cut == 1:
        exp = [p for p in pos if id(p[0]) not in below]
        same("dfs-deep", list(root.dfs(prune=lambda i: i.node is mid)), exp)
        same("dfs-bottom-up-deep", list(root.dfs(prune=lambda i: i.node is mid, bottom_up=True)), exp[::-1])
        same("bfs-deep", list(root.bfs(prune=lambda i: i.node is mid)), exp)
    else:
        exp = [p for p in pos if id(p[0]) in below]
        same("dfs-deep", list(root.dfs(filter=lambda i: id(i.node) in below)), exp)
        same("dfs-bottom-up-deep", list(root.dfs(filter=lambda i: id(i.node) in below, bottom_up=True)), exp[::-1])
        same("bfs-deep", list(root.bfs(filter=lambda i: id(i.node) in below)), exp)
    lab.nontrivial = True


PARTS = [Part("trees", check_tree, strategy=st_case_t, quick=6400, thorough=128000),
         Part("deep", check_deep, enumerate=enum_deep,
              exhaustive_note="4 chain shapes x depth 2x (thorough: and 4x) the recursion limit x {no predicate, prune, filter}")]
