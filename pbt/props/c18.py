"""C18 — legacy parent-aware trees stay structurally consistent through any history."""
from __future__ import annotations

import warnings
from typing import Any

from hypothesis import strategies as st

from pbt import legacy_engine as E
from pbt import models_legacy as L
from pbt.runtime import Ctx, Labels, Part, require

PROP = "C18"
WARM_LEGACY = True  # first-use order of the legacy classes differs between shards
RULE = (
    "programs of up to 40 operations over the legacy universe (leaf / inner nodes with required, "
    "optional, tuple, list and union child fields): new leaf, new inner over eligible children "
    "(attached roots and fully detached subtrees with free ids), attach, detach, detach_self, "
    "replace (property / single child / tuple / list of children, on roots, subtrees and detached "
    "nodes), replace_with (node or None; on roots, subtrees, detached and stale receivers), "
    "duplicate (attached or detached clone), ASTTransformVisitor and ASTTransformer runs with "
    "per-class rules (keep / rewrite via replace / replace by new leaf / remove), constructions "
    "with create_detached / ensure_unique_id. Operands are selectors resolved at run time against "
    "eligible operands so that every operation is expected to succeed and no node object is put at "
    "two positions; an operation that is nevertheless rejected with a documented error ends the "
    "program (inconclusive, C19's subject). After every step: per-op post-conditions from the "
    "docstrings and structural invariants over all held nodes (children attached and reporting "
    "parent / field / index, parents holding their children, lookup, unique ids, content_id equal "
    "to an independently rebuilt copy for every attached node, ancestors / get_depth / is_ancestor "
    "/ get_first_ancestor_of_type / calculated xpath agreeing with the downward structure). "
    "non-trivial = >= 2 structural operations (replace*, detach, transform) on non-root nodes at depth >= 2."
)
ASSUMPTIONS = [
    "'attached' is the library's own observable (registry identity); the invariants relate observables to each other and to the field structure",
    "independent rebuild uses create_detached=True with explicit fresh ids (never duplicate())",
]
FLOORS = {"programs:NONTRIVIAL": 0.1}

OPS = ["new_leaf", "new_inner", "attach", "detach", "detach_self", "replace_prop", "replace_child", "replace_seq",
       "replace_with", "replace_with_none", "duplicate", "transform_visitor", "transformer", "new_detached", "equal_siblings"]


class Inconclusive(Exception):
    pass


class Runner:
    def __init__(self, lab: Labels) -> None:
        self.w = E.World(lab)
        self.lab = lab
        self.structural_deep = 0

    # --------------------------------------------------------------------------- ops
    def run(self, o: list) -> None:
        w = self.w
        w.step_no += 1
        kind = o[0]
        errs = E.documented_errors()
        try:
            getattr(self, "op_" + kind)(*o[1:])
        except errs as e:
            self.lab.tag("rejected-" + type(e).__name__)
            raise Inconclusive(f"{kind}: {type(e).__name__}") from None

    def op_new_leaf(self, c: int, v: int, o: int) -> None:
        w = self.w
        cn = ["LLeaf", "LLeafB", "LSub", "LLeaf"][c % 4]
        kw = {"s": "ab"[v % 2]} if cn == "LLeafB" else {"v": v % 3}
        n = L.cls(cn)(origin=w.origin(o), **kw)
        require(not n.detached and n.parent is None, "new-node-attached-root", f"step {w.step_no}")
        w.hold(n)

    def op_new_detached(self, c: int, v: int, o: int) -> None:
        w = self.w
        n = L.cls("LLeaf")(origin=w.origin(o), v=v % 3, create_detached=True)
        require(n.detached, "create_detached", f"step {w.step_no}")
        w.hold(n)
        m = L.cls("LLeafB")(origin=w.origin(o + 1), s=f"uniq{w.step_no}", ensure_unique_id=True)
        require(not m.detached, "ensure_unique_id-attached", f"step {w.step_no}")
        w.hold(m)

    def op_new_inner(self, k: int, sels: list[int], v: int, o: int) -> None:
        w = self.w
        if k % 4 == 3 and v % 2:
            # a class whose child field is excluded from ==: stacked, a node equals its own parent
            ch = w.pick_children(sels[:1], set(), ("LHide",)) or w.pick_children(sels[:1], set())
            n = L.cls("LHide")(kid=ch[0] if ch else None, v=0, origin=w.origin(0))
            exp = [(ch[0], "kid", None)] if ch else []
            self.lab.tag_if(bool(ch) and type(ch[0]).__name__ == "LHide", "node-equal-to-its-parent")
        elif k % 4 == 3 and o % 2:
            # children in fields whose annotations name no node class (found by looking at the values)
            ch = w.pick_children(sels, set())
            dyn = ch[0] if ch and v % 3 else None
            dseq = tuple(ch[1:] if dyn is not None else ch)
            n = L.cls("LDyn")(dyn=dyn, dseq=dseq, v=v % 3, origin=w.origin(o))
            exp = ([(dyn, "dyn", None)] if dyn is not None else []) + [(x, "dseq", i) for i, x in enumerate(dseq)]
            self.lab.tag("runtime-detected-child-fields")
        elif k % 4 == 3:
            ch = w.pick_children(sels[:1], set())
            if not ch:
                return
            n = L.cls("LReq")(req=ch[0], v=v % 3, origin=w.origin(o))
            exp = [(ch[0], "req", None)]
        else:
            ch = w.pick_children(sels, set())
            un = None
            rest = list(ch)
            for x in ch:
                if k % 2 and type(x).__name__ in L.UN_CLASSES:
                    un = x
                    rest.remove(x)
                    break
            req = rest.pop(0) if rest and k % 3 else None
            opt = rest.pop(0) if rest and (k // 2) % 2 else None
            oseq = None
            if (k // 4) % 3 == 1 and rest:
                oseq = (rest.pop(),)  # optional tuple field
            xtra = rest.pop() if (k // 4) % 3 == 2 and rest else None  # child field added by the subclass
            cut = len(rest) // 2
            items, lst = tuple(rest[:cut]), list(rest[cut:])
            extra: dict = {}
            if (k + v + o) % 6 == 0 and w.free_id("") and not any(x.id == "" for x in w.held):
                extra["id"] = ""  # an explicit, legal, falsy id
                self.lab.tag("empty-string-id")
            if xtra is not None:
                extra["extra"] = xtra
            cn = "LInnerX" if xtra is not None else ("LFalsy" if (k + v) % 4 == 3 else "LInner")
            self.lab.tag_if(cn == "LFalsy", "falsy-inner-node")
            n = L.cls(cn)(req=req, opt=opt, items=items, lst=lst, un=un, oseq=oseq,
                                                                    v=v % 3, origin=w.origin(o), **extra)
            exp = ([(req, "req", None)] if req is not None else []) + ([(opt, "opt", None)] if opt is not None else []) + \
                [(x, "items", i) for i, x in enumerate(items)] + [(x, "lst", i) for i, x in enumerate(lst)] + \
                ([(un, "un", None)] if un is not None else []) + [(x, "oseq", i) for i, x in enumerate(oseq or ())] + \
                ([(xtra, "extra", None)] if xtra is not None else [])
        require(not n.detached and n.parent is None, "new-node-attached-root", f"step {w.step_no}")
        got = E.kids(n)
        require(len(got) == len(exp) and all(g[0] is e[0] and g[1:] == e[1:] for g, e in zip(got, exp)), "constructor-children", f"step {w.step_no}")
        for c, fn, i in exp:
            require(c.parent is n and not c.detached, "constructor-attaches-children", f"step {w.step_no} {fn}[{i}]")
        w.hold(n)
        self.lab.tag_if(any(len(E.subtree(c)) > 1 for c, _, _ in exp), "inner-over-subtrees")

    def op_equal_siblings(self, k: int, v: int, o: int) -> None:
        """a tuple / list field holding content-equal siblings of one origin (== to each other) after
        another element; removing or replacing an earlier element must move exactly the later ones"""
        w = self.w
        first = L.cls("LLeaf")(v=(v + 1) % 3, origin=w.origin(o + 1))
        twins = [L.cls("LLeaf")(v=v % 3, origin=w.origin(o)) for _ in range(2 + k % 2)]
        seq = [first, *twins] if k % 4 < 2 else [twins[0], first, *twins[1:]]
        kw = {"items": tuple(seq)} if k % 2 else {"lst": list(seq)}
        w.hold(L.cls("LInner")(v=v % 3, origin=w.origin(o), **kw))
        self.lab.tag("equal-siblings")
        target = first if (k // 4) % 2 == 0 else seq[0]
        if (k // 8) % 2:
            target.replace_with(L.cls("LLeafB")(s="r", origin=w.origin(o)))
        else:
            target.replace_with(None)

    def op_attach(self, s: int) -> None:
        w = self.w
        n = w.sel(s, lambda x: x.detached and w.attachable(x))
        if n is None:
            return
        n.attach()
        for x in E.subtree(n):
            require(not x.detached, "attach-subtree", f"step {w.step_no}")

    def op_detach(self, s: int) -> None:
        w = self.w
        n = w.sel(s)
        if n is None:
            return
        was_att, had_parent = not n.detached, n.parent is not None
        st = E.subtree(n)
        r = n.detach()
        if not was_att:
            require(r is True, "detach-detached-returns-True", f"step {w.step_no}")
        elif had_parent:
            require(r is False and not n.detached, "detach-subtree-refused", f"step {w.step_no}")
            self.lab.tag("detach-on-subtree-refused")
        else:
            require(r is True, "detach-root", f"step {w.step_no}")
            for x in st:
                require(x.detached and x.parent is None, "detach-whole-tree", f"step {w.step_no}: {type(x).__name__} still attached / has parent")
            self.structural(n, 0)

    def op_detach_self(self, s: int) -> None:
        w = self.w
        n = w.sel(s, lambda x: not x.detached and x.parent is None)
        if n is None:
            return
        ch = [c for c, _, _ in E.kids(n)]
        r = n.detach_self()
        require(r is True and n.detached, "detach_self", f"step {w.step_no}")
        for c in ch:
            require(not c.detached and c.parent is None, "detach_self-children-become-roots", f"step {w.step_no}")

    def depth_of(self, n: Any) -> int:
        return len(self.w.chain(n, self.w.parent_map()))

    def structural(self, n: Any, depth: int) -> None:
        if depth >= 2:
            self.structural_deep += 1

    def _replace(self, n: Any, changes: dict) -> None:
        w = self.w
        was_att = not n.detached
        p, pf, pi = n.parent, n.parent_field, n.parent_index
        depth = self.depth_of(n) if was_att else 0
        old_kids = E.kids(n)
        r = n.replace(**changes)
        w.hold(r)
        require(r is not n and type(r) is type(n), "replace-new-object", f"step {w.step_no}")
        require((not r.detached) == was_att, "replace-attached-iff-receiver-was", f"step {w.step_no}: receiver attached={was_att}, result attached={not r.detached}")
        require(n.detached, "replace-receiver-detached", f"step {w.step_no}")
        require(r.id == n.id, "replace-keeps-id", f"step {w.step_no}")
        for k, v in changes.items():
            got = getattr(r, k)
            require(got is v or got == v, "replace-changed-field", f"step {w.step_no} {k}")
        if was_att and p is not None:
            slot = getattr(p, pf.name)
            require((slot[pi] if pi is not None else slot) is r, "replace-parent-slot", f"step {w.step_no}")
            require(r.parent is p, "replace-result-parent", f"step {w.step_no}")
        if was_att:
            for c, fn, i in old_kids:
                if fn not in changes:
                    require(c.parent is r, "replace-reparents-unchanged-children", f"step {w.step_no} {fn}[{i}]")
        self.structural(n, depth)
        self.lab.tag("replace-on-" + ("subtree" if p is not None else ("root" if was_att else "detached")))

    def op_replace_prop(self, s: int, v: int) -> None:
        n = self.w.sel(s)
        if n is None:
            return
        if type(n).__name__ == "LLeafB":
            self._replace(n, {"s": n.s + "x"})
        elif v % 4 == 3 and n.v in (0, 1):
            # same value under ==, other type: still a different content
            self.lab.tag("replace-type-only")
            self._replace(n, {"v": int(n.v) if isinstance(n.v, bool) else bool(n.v)})
        else:
            self._replace(n, {"v": (int(n.v) + 1 + v) % 5})

    def op_replace_child(self, s: int, cs: int, which: int) -> None:
        w = self.w
        n = w.sel(s, lambda x: type(x).__name__ in ("LInner", "LInnerX", "LFalsy", "LReq"))
        if n is None:
            return
        anc = {id(a) for a in w.ancestors_of(n)} | {id(x) for x in E.subtree(n)}
        fn = "req" if type(n).__name__ == "LReq" else ["req", "opt", "un", "extra" if type(n).__name__ == "LInnerX" else "opt"][which % 4]
        want = L.UN_CLASSES if fn == "un" else None
        if which % 5 == 4 and type(n).__name__ in ("LInner", "LInnerX", "LFalsy"):
            self._replace(n, {fn: None})
            return
        ch = w.pick_children([cs], anc, want)
        if not ch:
            return
        self._replace(n, {fn: ch[0]})

    def op_replace_seq(self, s: int, cs: list[int], mode: int) -> None:
        w = self.w
        n = w.sel(s, lambda x: type(x).__name__ in ("LInner", "LInnerX", "LFalsy"))
        if n is None:
            return
        anc = {id(a) for a in w.ancestors_of(n)} | {id(x) for x in E.subtree(n)}
        fn = ["lst", "items", "oseq"][mode % 3]
        cur = list(getattr(n, fn) or ())
        new = w.pick_children(cs, anc)
        m = (mode // 2) % 4
        if m == 0:
            seq = cur + new
        elif m == 1:
            seq = new + cur[1:]
        elif m == 2:
            seq = list(reversed(cur)) + new[:1]
        else:
            seq = cur[:-1]
        val = list(seq) if fn == "lst" else tuple(seq)
        if fn == "oseq" and not seq and mode % 2:
            val = None
        self._replace(n, {fn: val})

    def op_replace_with(self, s: int, cs: int) -> None:
        w = self.w
        n = w.sel(s)
        if n is None:
            return
        was_att = not n.detached
        p, pf, pi = n.parent, n.parent_field, n.parent_index
        want = L.UN_CLASSES if (pf is not None and pf.name == "un") else None
        if pf is not None and pf.name in ("dyn", "dseq") and was_att:
            return  # no static type info for a field whose annotation names no node class: replace_with refuses (RuntimeError)
        if pf is not None and pf.name == "oseq" and was_att:
            return  # the static type info of an optional sequence lists no node types: the swap is rejected (C19)
        exclude = {id(a) for a in w.ancestors_of(n)} | {id(x) for x in E.subtree(n)}
        if cs % 5 == 4 and want is None:
            # the replacement is a stale detached object whose *own* id is held by an attached look-alike (the
            # object left behind by replace / replace_with): it takes over the receiver's id, so its old id does
            # not matter; whatever the library does, the structural invariants checked after the step decide
            stale = [x for x in w.held if x.detached and id(x) not in exclude and x is not n and not w.free_id(x.id)
                     and all((w.attachable(k) if k.detached else k.parent is None) for k, _, _ in E.kids(x))]
            if stale:
                try:
                    n.replace_with(stale[cs % len(stale)])
                    self.lab.tag("replace_with-stale-replacement-carried-out")
                except E.documented_errors():
                    self.lab.tag("replace_with-stale-replacement-refused")
                return
        ch = w.pick_children([cs], exclude, want)
        if not ch:
            return
        new = ch[0]
        if not was_att and not w.free_id(n.id):
            # stale receiver whose id is in use again (its successor holds it): the library refuses; whatever
            # it does, the structural invariants checked after every step decide
            try:
                n.replace_with(new)
                self.lab.tag("replace_with-on-stale-receiver-carried-out")
            except E.documented_errors():
                self.lab.tag("replace_with-on-stale-receiver-refused")
            return
        if not was_att and not new.detached:
            pass
        old_id, new_former_id = n.id, new.id
        depth = self.depth_of(n) if was_att else 0
        st_old = E.subtree(n)
        n.replace_with(new)
        require(new.id == old_id, "replace_with-takes-over-id", f"step {w.step_no}")
        require(new.original_id == new_former_id, "replace_with-original_id", f"step {w.step_no}")
        if p is not None and was_att:
            slot = getattr(p, pf.name)
            require((slot[pi] if pi is not None else slot) is new, "replace_with-parent-slot", f"step {w.step_no}")
            require(new.parent is p and not new.detached, "replace_with-new-attached", f"step {w.step_no}")
        if was_att:
            for x in st_old:
                require(x.detached, "replace_with-old-subtree-detached", f"step {w.step_no}")
        self.structural(n, depth)
        self.lab.tag("replace_with-on-" + ("subtree" if p is not None else ("root" if was_att else "detached")))

    def op_replace_with_twin_inside(self, s: int) -> None:
        """x.replace_with(S) where a descendant of the detached subtree S carries x's id (a detached
        content twin): the new root would take over an id that is already used inside its own subtree.
        The library may refuse (documented error) or carry it out consistently - the invariants decide."""
        from pyoak.legacy.error import ASTNodeReplaceWithError

        w = self.w
        S = w.sel(s, lambda x: x.detached and w.attachable(x) and any(
            type(d).__name__ in ("LLeaf", "LSub") and "_" not in d.id for d in E.subtree(x)[1:]))
        if S is None:
            return
        d = next(d for d in E.subtree(S)[1:] if type(d).__name__ in ("LLeaf", "LSub") and "_" not in d.id)
        kw = {"w": d.w} if type(d).__name__ == "LSub" else {}
        x = type(d)(v=d.v, origin=d.origin, create_detached=True, **kw)
        if x.id != d.id:
            return
        w.hold(x)
        self.lab.tag("replace_with-new-subtree-contains-receiver-id")
        try:
            x.replace_with(S)
        except ASTNodeReplaceWithError:
            self.lab.tag("refused")

    def op_replace_with_none(self, s: int) -> None:
        w = self.w
        n = w.sel(s, lambda x: not x.detached and (x.parent is None or x.parent_field.name in ("items", "lst", "opt", "un", "oseq", "extra")
                                                   or (x.parent_field.name == "req" and type(x.parent).__name__ in ("LInner", "LFalsy", "LInnerX"))))
        if n is None:
            return
        p, pf, pi = n.parent, n.parent_field, n.parent_index
        depth = self.depth_of(n)
        before = list(getattr(p, pf.name)) if p is not None and pi is not None else None
        n.replace_with(None)
        require(n.detached, "replace_with-None-detaches", f"step {w.step_no}")
        if p is not None:
            if pi is not None:
                after = list(getattr(p, pf.name))
                require(len(after) == len(before) - 1 and all(a is b for a, b in zip(after, before[:pi] + before[pi + 1:])),
                        "replace_with-None-removes-element", f"step {w.step_no}")
                self.lab.tag("removal-first" if pi == 0 else ("removal-last" if pi == len(before) - 1 else "removal-middle"))
            else:
                require(getattr(p, pf.name) is None, "replace_with-None-clears-field", f"step {w.step_no}")
        self.structural(n, depth)

    def op_duplicate(self, s: int, clone: bool) -> None:
        w = self.w
        n = w.sel(s)
        if n is None:
            return
        if clone is False and any(False for _ in ()):
            return
        existing = {x.id for x in w.held if not x.detached}
        st = E.subtree(n)
        if not clone and not all(True for _ in st):
            return
        d = n.duplicate(as_detached_clone=clone)
        w.hold(d)
        require(E.shape(d) == E.shape(n), "duplicate-content", f"step {w.step_no}")
        if not n.detached:  # a detached (possibly stale) receiver may carry an outdated content_id
            require(d.content_id == n.content_id, "duplicate-content_id", f"step {w.step_no}")
        ds = E.subtree(d)
        require(not ({id(x) for x in ds} & {id(x) for x in st}), "duplicate-shares-objects", f"step {w.step_no}")
        if clone:
            require(all(x.detached for x in ds) and [x.id for x in ds] == [x.id for x in st], "detached-clone-ids", f"step {w.step_no}")
        else:
            require(all(not x.detached for x in ds), "duplicate-attached", f"step {w.step_no}")
            require(not ({x.id for x in ds} & existing), "duplicate-ids-new", f"step {w.step_no}")
        self.lab.tag("duplicate-clone" if clone else "duplicate")

    # ------------------------------------------------------------------- transforms
    def _rules_ok(self, root: Any, rules: dict) -> bool:
        """removal is only generated where the position allows it"""
        if rules.get("LLeafB") != "remove":
            return True
        for x in E.subtree(root):
            if type(x).__name__ == "LReq" and type(x.req).__name__ == "LLeafB":
                return False
        return type(root).__name__ != "LLeafB" or root.parent is None or root.parent_field.name != "req" or type(root.parent).__name__ != "LReq"

    def expected_shape(self, n: Any, rules: dict, mro: bool = False) -> tuple | None:
        cn = type(n).__name__
        act = rules.get(cn, "keep")
        if mro:  # non-strict visitors dispatch to the nearest base class with a method
            act = next((rules[b] for b in L.BASES[cn] if b in rules), "keep")
        if act == "remove":
            return None
        if act == "newleaf":
            return ("LLeaf", (("v", 4),), ())
        ks = []
        counters: dict[str, int] = {}
        for c, fn, i in E.kids(n):
            sh = self.expected_shape(c, rules, mro)
            if sh is None:
                continue
            if i is None:
                ks.append((fn, None, sh))
            else:
                ks.append((fn, counters.get(fn, 0), sh))
                counters[fn] = counters.get(fn, 0) + 1
        props = tuple((p, (getattr(n, p) + 10 if act == "rewrite" and p == "v" else getattr(n, p))) for p in L.PROP_FIELDS[cn])
        return (cn, props, tuple(ks))

    def op_transform_visitor(self, s: int, rule_sel: int) -> None:
        from pyoak.legacy.node import ASTTransformVisitor

        w = self.w
        n = w.sel(s, lambda x: not x.detached or w.attachable(x) or True)
        if n is None:
            return
        rules = RULESETS[rule_sel % len(RULESETS)]
        if not self._rules_ok(n, rules):
            return
        if any(x.detached for x in E.subtree(n)) and not n.detached:
            return
        if n.parent_field is not None and n.parent_field.name == "oseq":
            return
        was_att = not n.detached
        if not was_att:
            return  # visitors are exercised on attached trees (the documented use)
        p, pf, pi = n.parent, n.parent_field, n.parent_index
        if rules.get(type(n).__name__) == "newleaf" and pf is not None and pf.name == "un":
            pass
        exp = self.expected_shape(n, rules, mro=True)
        old_id = n.id
        depth = self.depth_of(n)
        world = w

        def mk(act: str):
            def visit(self_, node):
                if act == "remove":
                    return None
                if act == "newleaf":
                    return L.cls("LLeaf")(v=4, origin=world.origin(0), create_detached=True)
                new = ASTTransformVisitor.generic_visit(self_, node)
                if act == "rewrite":
                    return new.replace(v=new.v + 10)
                return new
            return visit

        V = type("GenLegacyVisitor", (ASTTransformVisitor,), {f"visit_{c}": mk(a) for c, a in rules.items()})
        res = V().transform(n)
        if res is not None:
            w.hold(res)
        if exp is None:
            require(res is None, "transform-removal", f"step {w.step_no}")
            require(n.detached, "transform-removed-root-detached", f"step {w.step_no}")
        else:
            require(res is not None and E.shape(res) == exp, "transform-result-shape",
                    f"step {w.step_no}: {E.shape(res) if res is not None else None} expected {exp}")
            require(not res.detached and res.id == old_id, "transform-result-takes-place-of-original", f"step {w.step_no}")
            require(n.detached, "transform-original-detached", f"step {w.step_no}")
            if p is not None:
                slot = getattr(p, pf.name)
                require((slot[pi] if pi is not None else slot) is res, "transform-parent-slot", f"step {w.step_no}")
        self.structural(n, depth + 1)
        self.lab.tag("transform-visitor")

    def op_transformer(self, s: int, rule_sel: int) -> None:
        from pyoak.legacy.node import ASTTransformer

        w = self.w
        n = w.sel(s, lambda x: not x.detached and x.parent is None)
        if n is None:
            return
        rules = dict(RULESETS[rule_sel % len(RULESETS)])
        rules.pop(type(n).__name__, None)  # the root itself is returned, not replaced in place
        if not self._rules_ok(n, rules):
            return
        for x in E.subtree(n):
            if rules.get(type(x).__name__) == "newleaf" and x.parent_field is not None and x.parent_field.name in ("un", "oseq"):
                return
        exp = self.expected_shape(n, rules)
        world = w

        class T(ASTTransformer):
            def transform(self_, node):
                act = rules.get(type(node).__name__, "keep")
                if act == "remove":
                    return None
                if act == "newleaf":
                    return L.cls("LLeaf")(v=4, origin=world.origin(0))
                if act == "rewrite":
                    return node.replace(v=node.v + 10)
                return node

        res = T().execute(n)
        if res is not None:
            w.hold(res)
        # the root may have been re-created by replace() of descendants' ancestors? no: replace_with keeps ancestors
        root_now = res
        require(root_now is not None and E.shape(root_now) == exp, "transformer-result-shape",
                f"step {w.step_no}: {E.shape(root_now) if root_now is not None else None} expected {exp}")
        self.structural(n, 2)
        self.lab.tag("transformer")


RULESETS = [
    {"LLeaf": "rewrite"}, {"LSub": "newleaf"}, {"LLeafB": "remove"}, {"LLeaf": "rewrite", "LLeafB": "remove"},
    {"LInner": "rewrite"}, {"LSub": "rewrite", "LInner": "rewrite"}, {}, {"LReq": "rewrite", "LLeaf": "newleaf"},
]


def check_program(data: dict, lab: Labels) -> None:
    with warnings.catch_warnings():
        warnings.simplefilter("ignore", DeprecationWarning)
        r = Runner(lab)
        done = 0
        try:
            for o in data["ops"]:
                r.run(o)
                r.w.invariants()
                done += 1
                lab.tag(o[0])
        except Inconclusive:
            lab.tag("inconclusive-rejection")
        lab.count("steps", done)
        lab.nontrivial = r.structural_deep >= 2


def st_program(ctx: Ctx):
    s = st.integers(0, 60)
    small = st.integers(0, 11)
    new_leaf = st.tuples(st.just("new_leaf"), small, small, small)
    new_inner = st.tuples(st.just("new_inner"), small, st.lists(s, min_size=1, max_size=5), small, small)
    ops = [
        new_leaf, new_leaf, new_inner, new_inner, new_inner,
        st.tuples(st.just("new_detached"), small, small, small),
        st.tuples(st.just("attach"), s),
        st.tuples(st.just("detach"), s),
        st.tuples(st.just("detach_self"), s),
        st.tuples(st.just("replace_prop"), s, small), st.tuples(st.just("replace_prop"), s, small),
        st.tuples(st.just("replace_child"), s, s, small), st.tuples(st.just("replace_child"), s, s, small),
        st.tuples(st.just("replace_seq"), s, st.lists(s, max_size=2), small), st.tuples(st.just("replace_seq"), s, st.lists(s, max_size=2), small),
        st.tuples(st.just("replace_with"), s, s), st.tuples(st.just("replace_with"), s, s),
        st.tuples(st.just("replace_with_none"), s),
        st.tuples(st.just("replace_with_twin_inside"), s),
        st.tuples(st.just("duplicate"), s, st.booleans()),
        st.tuples(st.just("equal_siblings"), small, small, small),
        st.tuples(st.just("transform_visitor"), s, small),
        st.tuples(st.just("transformer"), s, small),
    ]
    start = st.lists(st.one_of(new_leaf, new_leaf, new_inner, new_inner).map(list), min_size=5, max_size=7)
    rest = st.lists(st.one_of(*ops).map(list), min_size=10, max_size=ctx.pick(30, 33))
    return st.tuples(start, rest).map(lambda t: {"ops": t[0] + t[1]})


def enum_deep(ctx: Ctx):
    for shape in ("req", "items", "lst", "mixed"):
        for factor in ((2, 4) if ctx.thorough else (2,)):
            yield {"shape": shape, "factor": factor}


def check_deep(data: dict, lab: Labels) -> None:
    """an attached chain far deeper than the recursion limit: parent links, ancestors, get_depth and
    is_ancestor agree with the chain (calculate_xpath, detach and duplicate recurse once per level
    by construction and are not asserted here)"""
    import sys

    from pyoak.legacy.node import AwareASTNode

    with warnings.catch_warnings():
        warnings.simplefilter("ignore", DeprecationWarning)
        nodes = L.build_chain(sys.getrecursionlimit() * data["factor"] + 37, data["shape"])
        lab.tag("deep-chain")
        lab.sample_class = "deep"
        n_all = len(nodes)
        lim = sys.getrecursionlimit()
        for k in sorted({0, 1, n_all // 2, lim - 1, lim, lim + 1, n_all - 2, n_all - 1}):
            n = nodes[k]
            require(not n.detached and AwareASTNode.get_any(n.id) is n, "lookup-attached", f"level {k}")
            require(n.parent is (nodes[k - 1] if k else None), "child-does-not-report-parent", f"level {k}")
            anc = list(n.ancestors())
            require(len(anc) == k and all(a is e for a, e in zip(anc, reversed(nodes[:k]))), "ancestors", f"level {k}")
            require(n.get_depth() == k, "get_depth", f"level {k}: {n.get_depth()}")
            for j in sorted({0, k // 2, max(k - 1, 0)}):
                if j < k:
                    require(nodes[j].is_ancestor(n) is True and n.is_ancestor(nodes[j]) is False, "is_ancestor", (k, j))
                    require(n.get_depth(relative_to=nodes[j]) == k - j, "get_depth-relative", (k, j))
        # a change at the bottom propagates to the very top
        top_cid = nodes[0].content_id
        leaf = nodes[-1]
        new_leaf = leaf.replace(v=leaf.v + 1)
        require(nodes[0].content_id != top_cid and new_leaf.parent is nodes[-2], "content_id-not-propagated", "deep chain")
        lab.nontrivial = True
        for n in nodes:  # unregister without recursion
            n.detach_self()


PARTS = [Part("programs", check_program, strategy=st_program, quick=6400, thorough=160000),
         Part("deep", check_deep, enumerate=enum_deep,
              exhaustive_note="4 chain shapes x depth 2x (thorough: and 4x) the recursion limit")]
