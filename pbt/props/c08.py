"""C08 — pattern matching follows the documented semantics; captures are exact objects."""
from __future__ import annotations

import re
from typing import Any

from hypothesis import strategies as st

from pbt import models_v2 as M
from pbt import pattern_ref as P
from pbt import trees as T
from pbt.runtime import Ctx, Labels, Part, require

PROP = "C08"
CLEAR_MATCH_CACHES = False  # results must not depend on what was compiled earlier: caches are kept on purpose
RULE = (
    "Hypothesis trees over the v2 universe (twins with other origins, tuples, optionals) x 3 "
    "patterns per case: raw ones from the grammar (class alternatives / '*', existing and "
    "non-existing fields, bare / regex / None / [] / nested to depth 3 / sequences of length 0-5 "
    "with and without tail, captures on fields, elements and tails, variables after their "
    "captures) and ones abstracted from a drawn node and then perturbed by a drawn seed (sequence "
    "one shorter / longer, tail added / removed, regex hitting mid-string only, sibling class, "
    "second alternative matching, variable bound to content-equal or content-different node). Each "
    "pattern is matched against its source node and two other nodes with the cached matcher, with a "
    "matcher re-compiled after clearing the cache, and again after compiling the case's other "
    "patterns; MultiPatternMatcher over the case's patterns in a drawn order and with rules= "
    "sub-orders. Oracle: reference interpreter (pbt/pattern_ref.py); captures compared by object "
    "identity. The pattern caches are never cleared between cases. non-trivial = pattern has a "
    "field spec with a sequence, nested pattern, capture or variable."
)
ASSUMPTIONS = [
    "reference interpreter in pbt/pattern_ref.py; sequence patterns are only applied to tuple-, node-, None- or int-valued fields (str is a Sequence: ambiguous in the docs, not generated)",
    "regexes come from a fixed safe family (escaped literal prefixes / infixes, \\d+, .*) and compile",
]
FLOORS = {"pairs:verdict-match": 0.2, "pairs:verdict-nomatch": 0.2, "pairs:has-capture": 0.3, "pairs:has-seq": 0.2}

CLASS_NAMES = ["ASTNode", *[c for c in M.CLASS_NAMES if c != "BombNode"]]
# (`children` is a field of one class only; on every other class the name is the convenience property, which
# builds a new list on every access - "the very object matched" has no meaning for it: kept out of raw patterns)
# (`alias` is a plain property of one class, `KIND` a class-level constant: attributes that exist without being fields)
ALL_FIELDS = sorted(({f.name for c in M.TABLE for f in c.fields if c.name != "BombNode"} - {"children"}) | {"alias", "KIND"})
SEQ_OK_FIELDS = sorted({f.name for c in M.TABLE for f in c.fields
                        if c.name != "BombNode" and (f.is_child or f.kind in ("int", "optint", "tint"))} - {"children"})
REGEXES = ["", ".*", "\\d+", "a", "1", "True", "None", "Color", "\\(", "[ab]+", "x y", "-?\\d", "b", "a b", "ab", "x y$", "a b", "x y", "a  b",
           'a|\\"', '\\"', '\\"a\\"', 'x\\\\\\"', 'x\\\\y', 'x\\\\d', '(?i)abc', '(?s)a.b', '(?x) a b']  # escaped quotes at the end / start / both; an escaped backslash before one


def is_node(v: Any) -> bool:
    from pyoak.node import ASTNode

    return isinstance(v, ASTNode)


def isinstance_of(v: Any, names: list[str]) -> bool:
    cn = type(v).__name__
    return any(n == "ASTNode" or (cn in M.BY_NAME and M.is_subclass(cn, n)) for n in names)


# ------------------------------------------------------------------ raw patterns (grammar)


def st_raw_pattern():
    cls = st.one_of(st.just(["*"]), st.lists(st.sampled_from(CLASS_NAMES), min_size=1, max_size=3, unique=True))
    cap = st.booleans()
    simple = st.one_of(
        st.just({"t": "none"}),
        st.sampled_from(REGEXES).map(lambda r: {"t": "re", "rx": r}),
        st.just({"t": "var"}),  # resolved (or dropped) by name assignment
    )

    def extend(inner):
        value = st.one_of(simple, inner)
        item = st.fixed_dictionaries({"val": value, "cap": cap})
        seq = st.fixed_dictionaries({"t": st.just("seq"), "items": st.lists(item, max_size=5),
                                     "tail": st.one_of(st.none(), st.fixed_dictionaries({"cap": cap}))})
        fspec_v = st.fixed_dictionaries({"name": st.sampled_from(ALL_FIELDS + ["nosuch"]),
                                         "val": st.one_of(st.none(), value), "cap": cap})
        fspec_s = st.fixed_dictionaries({"name": st.sampled_from(SEQ_OK_FIELDS), "val": seq, "cap": cap})
        # `[]` on any field: it is the empty tuple only, not "anything of length 0" (an empty string, b"", ...)
        fspec_e = st.fixed_dictionaries({"name": st.sampled_from(ALL_FIELDS),
                                         "val": st.just({"t": "seq", "items": [], "tail": None}), "cap": cap})
        return st.fixed_dictionaries({"t": st.just("tree"), "classes": cls,
                                      "fields": st.lists(st.one_of(fspec_v, fspec_s, fspec_e), max_size=4)})

    leaf_tree = st.fixed_dictionaries({"t": st.just("tree"), "classes": cls, "fields": st.just([])})
    return st.recursive(leaf_tree, extend, max_leaves=6)


def assign_names(p: dict, var_sel: int) -> dict:
    """capture flags -> unique names in textual order; `var` nodes -> an earlier capture (or a regex)."""
    counter = [0]
    avail: list[str] = []
    d = P.Det(var_sel)

    def name() -> str:
        counter[0] += 1
        n = counter[0]
        s = ""
        while n:
            n, r = divmod(n - 1, 26)
            s = chr(97 + r) + s
        return "c" + s

    def val(v: Any) -> Any:
        if v is None:
            return None
        t = v["t"]
        if t == "tree":
            return tree(v)
        if t == "seq":
            items = []
            for it in v["items"]:
                nv = val(it["val"])
                c = name() if it["cap"] else None
                items.append({"val": nv, "cap": c})
                if c:
                    avail.append(c)
            tail = None
            if v["tail"] is not None:
                c = name() if v["tail"]["cap"] else None
                tail = {"cap": c}
                if c:
                    avail.append(c)
            return {"t": "seq", "items": items, "tail": tail}
        if t == "var":
            if not avail:
                return {"t": "re", "rx": ".*"}
            return {"t": "var", "name": d.pick(avail)}
        return dict(v)

    def tree(t: dict) -> dict:
        fields = []
        for f in t["fields"]:
            nv = val(f["val"])
            c = name() if f["cap"] else None
            fields.append({"name": f["name"], "val": nv, "cap": c})
            if c:
                avail.append(c)
        return {"t": "tree", "classes": list(t["classes"]), "fields": fields}

    return tree(p)


# ------------------------------------------------------------- patterns abstracted from a node


def _rx_for(v: Any, d: P.Det) -> str:
    # a double quote ends the regex token unless it is written `\"` (which, as a regex, matches a quote)
    return _rx_for0(v, d).replace('"', '\\"')


def _rx_for0(v: Any, d: P.Det) -> str:
    s = str(v)
    k = d.next(8)
    if k == 6:
        return re.escape(s) + '|"'  # a literal that *ends* in an escaped quote
    if k == 7:
        return '"|' + re.escape(s)  # ... and one that starts with it
    if k == 0 or not s:
        return re.escape(s)
    if k == 1:
        return re.escape(s[: 1 + d.next(len(s))])
    if k == 2 and len(s) >= 2:
        return re.escape(s[1:])  # hits mid-string only (unless the text repeats)
    if k == 3:
        return ".*"
    if k == 4:
        return re.escape(s) + "$"
    return re.escape(s + "x")  # mismatch


class Abstractor:
    def __init__(self, seed: int) -> None:
        self.d = P.Det(seed)
        self.n = 0
        self.avail: list[tuple[str, Any]] = []

    def cap(self, num: int = 1, den: int = 3) -> str | None:
        if not self.d.chance(num, den):
            return None
        self.n += 1
        return "k" + chr(96 + (self.n - 1) % 26 + 1) * (1 + (self.n - 1) // 26)

    def classes(self, node: Any) -> list[str]:
        cn = type(node).__name__
        k = self.d.next(8)
        mro = [*M.mro_names(cn), "ASTNode"]
        others = [c for c in CLASS_NAMES if c not in mro and not M.is_subclass(c, cn)]
        if k == 0:
            return ["*"]
        if k == 1:
            return [self.d.pick(mro)]
        if k == 2 and others:
            return [self.d.pick(others), cn]  # the second alternative is the matching one
        if k == 3 and others:
            return [self.d.pick(others)]  # mismatch
        if k == 4 and others:
            return [cn, self.d.pick(others)]
        return [cn]

    def value(self, v: Any, depth: int) -> dict | None:
        d = self.d
        if is_node(v):
            cands = [n for n, o in self.avail if is_node(o)]
            if cands and d.chance(1, 3):
                return {"t": "var", "name": d.pick(cands)}
            if depth > 0 and d.chance(2, 3):
                return self.tree(v, depth - 1)
            return None
        if v is None:
            return {"t": "none"} if d.chance(2, 3) else None
        if isinstance(v, tuple) and (not v or is_node(v[0])):
            return self.seq(v, depth)
        if d.chance(1, 6) and self.avail:
            return {"t": "var", "name": d.pick([n for n, _ in self.avail])}
        return {"t": "re", "rx": _rx_for(v, d)} if d.chance(3, 4) else None

    def seq(self, v: tuple, depth: int) -> dict:
        d = self.d
        n = len(v)
        variant = d.next(8)
        # 0 exact, 1 exact+tail, 2 prefix+tail, 3 one longer, 4 one longer + tail, 5 one shorter, 6 [] , 7 exact
        k = n
        tail = None
        if variant == 1:
            tail = {"cap": self.cap(1, 2)}
        elif variant == 2:
            k = d.next(n + 1)
            tail = {"cap": None}
        elif variant in (3, 4):
            k = n + 1
        elif variant == 5 and n > 0:
            k = n - 1
        elif variant == 6:
            return {"t": "seq", "items": [], "tail": None}
        items = []
        for i in range(k):
            if i < n:
                el = v[i]
                val = self.value(el, depth) if d.chance(2, 3) else None
                if val is None:
                    val = {"t": "tree", "classes": ["*"], "fields": []}
            else:
                el = None
                val = {"t": "tree", "classes": ["*"], "fields": []}
            c = self.cap(1, 3)
            items.append({"val": val, "cap": c})
            if c and el is not None:
                self.avail.append((c, el))
        if variant == 2:
            tail = {"cap": self.cap(1, 2)}
        if variant == 4:
            tail = {"cap": None}
        return {"t": "seq", "items": items, "tail": tail}

    def tree(self, node: Any, depth: int) -> dict:
        import dataclasses

        d = self.d
        names = [f.name for f in dataclasses.fields(node) if f.name not in ("id", "content_id", "origin")]
        fields = []
        for fn in names:
            if not d.chance(2, 3):
                continue
            v = getattr(node, fn)
            if isinstance(v, (str, bytes)) and len(v) == 0 and d.chance(1, 2):
                # an empty string is no empty tuple: `[]` must not match it
                val: Any = {"t": "seq", "items": [], "tail": None}
            elif isinstance(v, str) and d.chance(1, 2):
                val = {"t": "re", "rx": _rx_for(v, d)}
            elif isinstance(v, (frozenset,)):
                val = None
            else:
                val = self.value(v, depth)
            c = self.cap(1, 3)
            fields.append({"name": fn, "val": val, "cap": c})
            if c:
                self.avail.append((c, v))
        if d.chance(1, 12):
            fields.append({"name": "nosuch", "val": None, "cap": None})
        if type(node).__name__ == "Uni" and d.chance(1, 2):
            # attributes that exist without being dataclass fields (a plain property, a ClassVar)
            an = d.pick(["alias", "KIND"])
            av = getattr(node, an)
            c = self.cap(1, 2)
            fields.append({"name": an, "val": self.value(av, depth) if d.chance(1, 2) else None, "cap": c})
            if c:
                self.avail.append((c, av))
        if fields and d.chance(1, 4):
            # the same field listed twice: every listed spec has to hold (and every capture is made)
            again = d.pick([f for f in fields if f["name"] != "nosuch"] or fields)
            v = getattr(node, again["name"], None)
            if not is_node(v) and not isinstance(v, (tuple, frozenset)) and v is not None:
                second = {"name": again["name"], "val": {"t": "re", "rx": _rx_for(v, d)}, "cap": self.cap(1, 3)}
            else:
                second = {"name": again["name"], "val": None, "cap": self.cap(1, 2)}
            if second["cap"]:
                self.avail.append((second["cap"], v))
            fields.insert(d.next(len(fields) + 1), second)
        return {"t": "tree", "classes": self.classes(node), "fields": fields}


def _repeats_field(p: Any) -> bool:
    if isinstance(p, dict):
        if p.get("t") == "tree":
            names = [f["name"] for f in p["fields"]]
            if len(set(names)) < len(names):
                return True
        return any(_repeats_field(v) for v in p.values())
    if isinstance(p, list):
        return any(_repeats_field(v) for v in p)
    return False


def features(p: Any) -> set[str]:
    out: set[str] = set()
    if isinstance(p, dict):
        if p.get("t") == "seq":
            out.add("seq")
            if p["tail"] is not None:
                out.add("tail")
        if p.get("t") == "var":
            out.add("var")
        if p.get("t") == "re":
            out.add("regex")
        if p.get("cap"):
            out.add("capture")
        for k, v in p.items():
            if k in ("val",) and isinstance(v, dict) and v.get("t") == "tree":
                out.add("nested")
            out |= features(v)
    elif isinstance(p, list):
        for v in p:
            out |= features(v)
    return out


# ------------------------------------------------------------------------------- check


def _same_caps(got: dict, exp: dict) -> str | None:
    if set(got) != set(exp):
        return f"capture names {sorted(got)} expected {sorted(exp)}"
    for k, e in exp.items():
        g = got[k]
        if isinstance(e, tuple) and not is_node(e):
            if not (isinstance(g, tuple) and len(g) == len(e) and all(x is y for x, y in zip(g, e))):
                return f"capture {k}: not the tuple of the very elements ({type(g).__name__})"
        elif isinstance(e, list) and isinstance(g, list):
            # only the inherited `children` property yields a list, a new one per access: its elements decide
            if not (len(g) == len(e) and all(x is y for x, y in zip(g, e))):
                return f"capture {k}: the list does not hold the very children"
        elif g is not e:
            return f"capture {k}: not the very object matched ({type(g).__name__} vs {type(e).__name__})"
    return None


def check_case(data: dict, lab: Labels) -> None:
    from pyoak.match import pattern as PM
    from pyoak.match.pattern import MultiPatternMatcher, NodeMatcher

    b, root_e, ex = T.build(data["tree"])
    enodes = T.nodes_preorder(root_e)
    lives = [b.of(e) for e in enodes]
    rich = [n for n in lives if type(n).__name__ in ("Vals", "Strs", "SerVals")]
    pats: list[dict] = []
    srcs: list[Any] = []
    for d in data["pats"]:
        if d[0] == "raw":
            pats.append(assign_names(d[1], d[2]))
            srcs.append(lives[d[3] % len(lives)])
        else:
            node = lives[d[1] % len(lives)]
            if d[1] % 2 and rich:  # every other derived pattern describes a node with many kinds of values
                node = rich[(d[1] // 2) % len(rich)]
            pats.append(Abstractor(d[2]).tree(node, 2))
            srcs.append(node)
    texts = [P.render(p, 0) for p in pats]
    results: list[list] = []
    for pi, (p, text, src) in enumerate(zip(pats, texts, srcs)):
        m, msg = NodeMatcher.from_pattern(text)
        require(m is not None, "wellformed-pattern-rejected", f"{text!r}: {msg}")
        targets = [src] + [lives[(k + pi) % len(lives)] for k in data["others"]]
        feats = features(p)
        lab.tag_if('@sk="' in text, "regex-on-str-enum-value")
        lab.tag_if(_repeats_field(p), "field-listed-twice")
        res_for_p = []
        for node in targets:
            exp_ok, exp_caps = P.ref_match(p, node, {}, is_node, isinstance_of)
            ok, caps = m.match(node)
            require(ok is exp_ok, "match-verdict", f"{text!r} on {type(node).__name__} {T.live_key(node)!r:.300}: "
                    f"library {ok}, reference {exp_ok}")
            if not ok:
                require(dict(caps) == {}, "captures-on-failure", f"{text!r}: {caps!r:.200}")
            else:
                d_ = _same_caps(dict(caps), exp_caps)
                require(d_ is None, "captures", f"{text!r} on {type(node).__name__}: {d_}")
            if isinstance(caps, dict):
                # the caller owns what it was handed: writing into it must not show up in later results
                caps["scribble"] = node
                caps.pop(next(iter(caps)), None) if len(caps) > 1 and pi % 2 else None
                lab.tag("returned-captures-modified" if ok else "returned-empty-captures-modified")
            res_for_p.append((node, exp_ok, exp_caps))
            lab.tag("verdict-match" if exp_ok else "verdict-nomatch")
            lab.count("pairs")
        results.append(res_for_p)
        for f in feats:
            lab.tag("has-" + f)
        if feats & {"seq", "nested", "capture", "var"}:
            lab.nontrivial = True
    # fresh compilation and interleaving: results must not depend on cache or compile history
    for p, text, res_for_p in zip(pats, texts, results):
        cached, _ = NodeMatcher.from_pattern(text)
        PM._MATCHER_CACHE.pop(text, None)
        # a failed definition in between (it uses this pattern's capture names, then an unknown class)
        # must not influence the next compilation
        caps_ = P.capture_names(p)[:2] or ["zz"]
        bad = "(LeafA " + " ".join(f"@v -> {c}" for c in caps_) + " @w=(NoSuchClassAnywhere))"
        okb, _ = PM.validate_pattern(bad)
        require(not okb, "illformed-pattern-accepted", bad)
        nb, _ = NodeMatcher.from_pattern(bad)
        require(nb is None, "illformed-pattern-accepted", bad)
        fresh, msg = NodeMatcher.from_pattern(text)
        require(fresh is not None, "wellformed-pattern-rejected", f"recompilation of {text!r}: {msg}")
        for node, exp_ok, exp_caps in res_for_p:
            for which, m in (("cached-after-other-compilations", cached), ("recompiled", fresh)):
                ok, caps = m.match(node)
                require(ok is exp_ok, "match-depends-on-compile-history", f"{which} {text!r}: {ok} vs {exp_ok}")
                if ok:
                    d_ = _same_caps(dict(caps), exp_caps)
                    require(d_ is None, "captures-depend-on-compile-history", f"{which} {text!r}: {d_}")
    # MultiPatternMatcher: first matching rule in the given order
    order = [i % len(pats) for i in data["order"]]
    seen: list[int] = []
    for i in order:
        if i not in seen:
            seen.append(i)
    defs = [(f"r{i}", texts[i]) for i in seen]
    mm = MultiPatternMatcher(defs)
    # an explicitly empty selection selects nothing (it is not "no selection")
    for empty in ([], (), frozenset(), {}.keys(), iter(())):
        got_e = mm.match(srcs[0], rules=empty)
        require(got_e is None, "multi-no-rule-should-match", f"{defs} rules={empty!r}: {got_e!r:.200}")
    k_multi = 0
    for node in [srcs[0], lives[data["others"][0] % len(lives)], lives[0]]:
        for rules in (None, [f"r{i}" for i in reversed(seen)], [f"r{seen[-1]}"]):
            names = [f"r{i}" for i in seen] if rules is None else rules
            exp = None
            for rn in names:
                i = int(rn[1:])
                ok, caps = P.ref_match(pats[i], node, {}, is_node, isinstance_of)
                if ok:
                    exp = (rn, caps)
                    break
            # `rules` is any iterable of names: list, tuple, one-shot iterator, generator, dict view
            how = (data["order"][0] + len(names) + k_multi) % 5 if rules is not None else 0
            k_multi += 1
            passed: Any = rules
            if rules is not None:
                passed = [rules, tuple(rules), iter(rules), (r for r in rules), dict.fromkeys(rules).keys()][how]
                lab.tag_if(how in (2, 3), "multi-rules-one-shot-iterator")
            got = mm.match(node, rules=passed)
            if exp is None:
                require(got is None, "multi-no-rule-should-match", f"{defs} rules={rules}: {got!r:.200}")
            else:
                require(got is not None and got[0] == exp[0], "multi-first-matching-rule",
                        f"{defs} rules={rules}: {None if got is None else got[0]} expected {exp[0]}")
                d_ = _same_caps(dict(got[1]), exp[1])
                require(d_ is None, "multi-captures", f"{defs} rules={rules} rule {exp[0]}: {d_}")
                if isinstance(got[1], dict):
                    got[1]["scribble"] = node
            lab.count("multi")


    # a large rule set (16-40 rules): the case's patterns repeated under other names, with catch-all rules
    # (`(*)`, `(Base)`, the node's own class) at drawn places - still the first matching rule in the given order
    big = data.get("big")
    if big:
        fillers = [{"t": "tree", "classes": ["*"], "fields": []}, {"t": "tree", "classes": ["Base"], "fields": []},
                   {"t": "tree", "classes": [type(srcs[0]).__name__ if type(srcs[0]).__name__ in CLASS_NAMES else "Mixed"], "fields": []},
                   {"t": "tree", "classes": ["LeafA", "Mixed"], "fields": []}]
        plist = [pats[k % len(pats)] if k % 5 else fillers[(k // 5) % len(fillers)] for k in big]
        bdefs = [(f"b{j}", P.render(pp, 0)) for j, pp in enumerate(plist)]
        bm = MultiPatternMatcher(bdefs)
        for node in [srcs[0], srcs[-1], lives[data["others"][0] % len(lives)], lives[0]]:
            exp = None
            for (rn, _), pp in zip(bdefs, plist):
                ok, caps = P.ref_match(pp, node, {}, is_node, isinstance_of)
                if ok:
                    exp = (rn, caps)
                    break
            got = bm.match(node)
            if exp is None:
                require(got is None, "multi-no-rule-should-match", f"{len(bdefs)} rules: {got!r:.200}")
            else:
                require(got is not None and got[0] == exp[0], "multi-first-matching-rule",
                        f"{len(bdefs)} rules {[t for _, t in bdefs]!r:.600} on {type(node).__name__}: "
                        f"{None if got is None else got[0]} expected {exp[0]}")
                d_ = _same_caps(dict(got[1]), exp[1])
                require(d_ is None, "multi-captures", f"{len(bdefs)} rules, rule {exp[0]}: {d_}")
            lab.count("multi")
        lab.tag("multi-16-or-more-rules")


    # the same matcher object, later, on a rebuilt copy of a subtree that was given up (same ids, other
    # objects): what it returns is about the node at hand
    node0 = srcs[0]
    first = mm.match(node0)
    node0.detach()
    twin = node0.duplicate()
    exp_t = None
    for i in seen:
        ok, caps = P.ref_match(pats[i], twin, {}, is_node, isinstance_of)
        if ok:
            exp_t = (f"r{i}", caps)
            break
    got_t = mm.match(twin)
    if exp_t is None:
        require(got_t is None, "multi-no-rule-should-match", f"rebuilt twin: {got_t!r:.200}")
    else:
        require(got_t is not None and got_t[0] == exp_t[0], "multi-first-matching-rule",
                f"rebuilt twin: {None if got_t is None else got_t[0]} expected {exp_t[0]}")
        d_ = _same_caps(dict(got_t[1]), exp_t[1])
        require(d_ is None, "multi-captures", f"same matcher on a rebuilt twin of a given-up node (same id): {d_}")
    lab.tag_if(twin.id == node0.id, "same-matcher-on-rebuilt-twin-of-one-id")
    del first


def st_case(ctx: Ctx):
    g = T.TreeGen(leaves=ctx.pick(8, 12), origin_rate=0.3, falsy=True, extra_leaves=("Vals", "Vals", "Strs"))
    raw = st.tuples(st.just("raw"), st_raw_pattern(), st.integers(0, 1000), st.integers(0, 60)).map(list)
    derived = st.tuples(st.just("derived"), st.integers(0, 60), st.integers(0, 2**31)).map(list)
    return st.fixed_dictionaries(
        {
            "tree": st.one_of(g.inner_tree(), g.inner_tree(), g.tree()),
            "pats": st.lists(st.one_of(raw, derived, derived), min_size=3, max_size=3),
            "others": st.lists(st.integers(0, 60), min_size=2, max_size=2),
            "order": st.lists(st.integers(0, 2), min_size=1, max_size=4),
            "big": st.one_of(st.none(), st.lists(st.integers(0, 60), min_size=16, max_size=40)),
        }
    )


PARTS = [Part("pairs", check_case, strategy=st_case, quick=9600, thorough=240000)]
