"""C20 — legacy traversal and legacy XPath follow the same semantics as their successors."""
from __future__ import annotations

import warnings
from collections import deque
from typing import Any

from hypothesis import strategies as st

from pbt import models_legacy as L
from pbt import xpath_ref as X
from pbt.runtime import Ctx, FalsyCallable, Labels, Part, require

PROP = "C20"
WARM_LEGACY = True  # first-use order of the legacy classes differs between shards
RULE = (
    "Hypothesis attached legacy trees (tuple AND list child fields, optional children, a required "
    "child, tuples up to 13 wide) x (prune, filter) predicate subsets over the nodes (all 2^n x 2^n "
    "for n <= 4 (5 thorough), otherwise 3 fixed + 10 drawn) x skip_self x bottom_up for dfs / bfs, "
    "gather over class subsets x exact x extra filter x prune x skip_self, compared as sequences "
    "with C05's reference traversal with the start node prepended (offered to filter and prune like "
    "any node) unless skipped; 4 xpaths per tree (raw from the grammar and derived from a node's "
    "chain, as in C07) matched on every node against pbt/xpath_ref.py along the parent chain (all "
    "index digits significant); malformed xpath texts raise only the definition error; "
    "calculate_xpath returns True on the attached root, assigns every node the path spelled by its "
    "chain and returns False (changing nothing) on non-roots. non-trivial = depth >= 3 and some "
    "predicate pair prunes a non-leaf or filters an inner node, or an xpath with >= 2 steps has a "
    "result that is neither empty nor everything."
)
ASSUMPTIONS = ["reference traversal of C05 and xpath semantics of pbt/xpath_ref.py", "trees are built attached, bottom-up"]
FLOORS = {"trees:list-children": 0.15, "trees:index>=10": 0.05}

CLASS_NAMES = ["AwareASTNode", *L.CLASS_NAMES]
FIELD_NAMES = ["req", "opt", "items", "lst", "un", "oseq", "extra", "root", "nosuch", "v"]
BAD_XPATHS = ["//", "/", "", "/@", "/LInner/@items[a]LLeaf", "/LInner[1", "LInner//", "/@items[1]", "//Nope", "//CodeOrigin",
              "/LInner/@items[-1]LLeaf", "//LeafA"]


def ref_order(root: dict, prune, flt, mode: str, skip_self: bool) -> list[dict]:
    out: list[dict] = []
    if mode == "bfs":
        q = deque([root])
        first = True
        while q:
            n = q.popleft()
            if not (first and skip_self):
                if flt(n):
                    out.append(n)
                if prune(n):
                    first = False
                    continue
            first = False
            q.extend(c for c, _, _ in L.children_of_spec(n))
        return out

    def rec(n: dict, is_start: bool) -> None:
        skipped = is_start and skip_self
        if mode == "pre" and not skipped and flt(n):
            out.append(n)
        if skipped or not prune(n):
            for c, _, _ in L.children_of_spec(n):
                rec(c, False)
        if mode == "post" and not skipped and flt(n):
            out.append(n)

    rec(root, True)
    return out


MRO_OF = lambda c: [*L.BASES[c], "AwareASTNode"]  # noqa: E731


def check_tree(data: dict, lab: Labels) -> None:
    with warnings.catch_warnings():
        warnings.simplefilter("ignore", DeprecationWarning)
        _check_tree(data, lab)
        _check_orphan(data, lab)


def E_world_origin(c: Any) -> Any:
    """another origin than the node's (same source, another range)"""
    from pyoak.origin import CodeOrigin, MemoryTextSource, get_code_range

    src = MemoryTextSource("0123456789abcdef", source_uri="mem://c20-other")
    k = 1 + (len(str(c.origin)) % 5)
    return CodeOrigin(source=src, position=get_code_range(k, 1, k, k + 2, 1, k + 2))


def _check_orphan(data: dict, lab: Labels) -> None:
    """a subtree that outlives its root: once the last reference to the former root is gone the kept
    node is an attached root (its parent id resolves to nothing) and everything said about attached
    roots applies to it."""
    import gc

    from pyoak.legacy.match.xpath import ASTXpath

    from pbt import legacy_engine as E

    gc.collect()
    b = L.LBuilt(data["tree"])
    inner = [c for c, _, _ in E.kids(b.root)]
    if not inner:
        return
    with_kids = [c for c in inner if E.kids(c)]
    sub = (with_kids or inner)[data["start"] % len(with_kids or inner)]
    del b, inner, with_kids
    gc.collect()
    if sub.parent is not None or not sub.is_attached_root:
        lab.tag("orphan-not-a-root")  # (C18's subject, not asserted here)
        return
    lab.tag("orphaned-subtree-as-root")
    require(sub.calculate_xpath() is True, "calculate_xpath-root", "a kept subtree whose former root is gone")

    def walk(n: Any, prefix: str) -> None:
        require(n.xpath == prefix, "calculate_xpath-path",
                f"kept subtree whose former root is gone: {n.xpath!r} expected {prefix!r}")
        for k, kfn, ki in E.kids(n):
            walk(k, prefix + f"/@{kfn}[{0 if ki is None else ki}]{type(k).__name__}")

    walk(sub, f"/@root[0]{type(sub).__name__}")
    require(ASTXpath(f"/{type(sub).__name__}").match(sub) is True, "legacy-xpath-vs-documented-semantics",
            "absolute one-step path on a kept subtree whose former root is gone")
    got = list(sub.dfs())
    require(bool(got) and got[0] is sub, "legacy-dfs-sequence", "kept subtree whose former root is gone: start node first")


def _check_tree(data: dict, lab: Labels) -> None:
    from pyoak.legacy.match.xpath import ASTXpath
    from pyoak.match.error import ASTXpathDefinitionError as NewErr

    try:
        from pyoak.legacy.match.error import ASTXpathDefinitionError
    except ImportError:  # pragma: no cover
        ASTXpathDefinitionError = NewErr  # type: ignore

    spec = data["tree"]
    b = L.LBuilt(spec)
    root = b.root
    pos = L.preorder(spec)
    specs = [p[0] for p in pos]
    idx = {id(s): i for i, s in enumerate(specs)}
    live_idx = {id(b.of(s)): i for i, s in enumerate(specs)}
    n = len(specs)
    depth_of: dict[int, int] = {}
    parent: dict[int, tuple | None] = {}
    for s, p, fn, i in pos:
        parent[id(s)] = None if p is None else (p, fn, i)
        depth_of[id(s)] = 0 if p is None else depth_of[id(p)] + 1
    depth = 1 + max(depth_of.values())
    lab.tag(f"depth{min(depth, 5)}")
    lab.tag_if(any(fn == "lst" for _, _, fn, _ in pos), "list-children")
    lab.tag_if(any((i or 0) >= 10 for _, _, _, i in pos), "index>=10")
    has_kids = [bool(L.children_of_spec(s)) for s in specs]

    # ---- traversals
    start_i = data["start"] % n
    start_s = specs[start_i]
    start = b.of(start_s)
    sub = [p[0] for p in L.preorder(start_s)]
    m = len(sub)
    sidx = {id(s): i for i, s in enumerate(sub)}
    full = (1 << m) - 1
    if m <= (5 if data.get("thorough") else 4):
        pairs = [(p, f) for p in range(full + 1) for f in range(full + 1)]
        lab.tag("all-predicate-pairs")
    else:
        pairs = [(0, full), (full, full), (0, 0)] + [(p & full, f & full) for p, f in data["masks"]]
    nt = False
    for pm, fm in pairs:
        prune_e = lambda s: bool(pm >> sidx[id(s)] & 1)  # noqa: E731
        flt_e = lambda s: bool(fm >> sidx[id(s)] & 1)  # noqa: E731
        live_sub = {id(b.of(s)): i for i, s in enumerate(sub)}
        prune_l = lambda nd: bool(pm >> live_sub[id(nd)] & 1)  # noqa: E731
        flt_l = lambda nd: bool(fm >> live_sub[id(nd)] & 1)  # noqa: E731
        P_, F_ = (FalsyCallable(prune_l), FalsyCallable(flt_l)) if (pm + fm) % 3 == 0 else (prune_l, flt_l)
        for skip_self in (False, True):
            # the documented parameter order is part of the interface: every other pair goes by position
            positional = (pm ^ fm) % 2 == 1
            for name, mode, call in (
                ("dfs", "pre", (lambda: start.dfs(P_, F_, False, skip_self)) if positional
                 else (lambda: start.dfs(prune=P_, filter=F_, skip_self=skip_self))),
                ("dfs-bottom-up", "post", (lambda: start.dfs(P_, F_, True, skip_self)) if positional
                 else (lambda: start.dfs(prune=P_, filter=F_, bottom_up=True, skip_self=skip_self))),
                ("bfs", "bfs", (lambda: start.bfs(P_, F_, skip_self)) if positional
                 else (lambda: start.bfs(skip_self=skip_self, filter=F_, prune=P_))),
            ):
                exp = ref_order(start_s, prune_e, flt_e, mode, skip_self)
                got = list(call())
                ok = len(got) == len(exp) and all(g is b.of(e) for g, e in zip(got, exp))
                require(ok, f"legacy-{name}-sequence",
                        f"start {start_i} masks={pm},{fm} skip_self={skip_self}: expected {[sidx[id(e)] for e in exp]} "
                        f"got {[live_sub.get(id(g), -1) for g in got]}")
        lab.count("predicate-pairs")
        if any((pm >> i & 1) and has_kids[idx[id(sub[i])]] for i in range(m)) or any(
                not (fm >> i & 1) and has_kids[idx[id(sub[i])]] for i in range(m)):
            nt = True
    # gather
    for cmask, exact, pm, fm, skip_self in data["gather"]:
        names = [c for i, c in enumerate(CLASS_NAMES) if cmask >> i & 1]  # (none: an empty tuple selects nothing)
        clss = tuple(L.cls(c) for c in names)
        pm &= full
        fm &= full
        live_sub = {id(b.of(s)): i for i, s in enumerate(sub)}
        sel = lambda s: (s["c"] in names if exact else any(L.is_subclass(s["c"], c) for c in names)) and bool(fm >> sidx[id(s)] & 1)  # noqa: E731
        exp = ref_order(start_s, lambda s: bool(pm >> sidx[id(s)] & 1), sel, "pre", skip_self)
        arg: Any = clss[0] if len(clss) == 1 else clss
        got = list(start.gather(arg, exact_type=exact, extra_filter=lambda nd: bool(fm >> live_sub[id(nd)] & 1),
                                prune=lambda nd: bool(pm >> live_sub[id(nd)] & 1), skip_self=skip_self))
        require(len(got) == len(exp) and all(g is b.of(e) for g, e in zip(got, exp)), "legacy-gather",
                f"classes={names} exact={exact} masks={pm},{fm} skip_self={skip_self}: expected "
                f"{[sidx[id(e)] for e in exp]} got {[live_sub.get(id(g), -1) for g in got]}")

    # ---- xpath along parent chains
    def chain_of(s: dict) -> list[tuple]:
        out = []
        cur = s
        while True:
            p = parent[id(cur)]
            if p is None:
                out.append((None, None, cur["c"]))
                break
            out.append((p[1], p[2], cur["c"]))
            cur = p[0]
        return list(reversed(out))

    chains = {id(s): chain_of(s) for s in specs}
    from pbt.props import c07

    for xp in data["xpaths"]:
        if xp[0] == "raw":
            steps, relative, ws = xp[1], xp[2], xp[3]
            if relative and X.is_marker(steps[0]):
                relative = False
        elif xp[0] == "subseq":
            target = specs[xp[1] % n]
            steps, relative = X.subsequence_path(chains[id(target)], MRO_OF, xp[2], xp[3], xp[4])
            ws = 0
        else:
            target = specs[xp[1] % n]
            steps, relative = _derive(chains[id(target)], xp[2], xp[3])
            ws = xp[4]
        text = X.render(steps, relative, ws)
        x = ASTXpath(text)
        rs = X.real_steps(steps, relative)
        hits = 0
        for s in specs:
            exp = X.matches(steps, relative, chains[id(s)], L.is_subclass)
            got = x.match(b.of(s))
            require(got is exp, "legacy-xpath-match", f"{text!r} on node {idx[id(s)]} chain {chains[id(s)]}: {got}, reference {exp}")
            hits += exp
        lab.tag_if(any(st_["index"] not in (None, "") and int(st_["index"]) >= 10 for st_, _ in rs), "xpath-index>=10")
        if len(rs) >= 2 and 0 < hits < n:
            nt = True
        lab.count("xpaths")
    del c07
    for k in data["bad"]:
        text = BAD_XPATHS[k % len(BAD_XPATHS)]
        try:
            ASTXpath(text)
            require(False, "legacy-malformed-xpath-accepted", repr(text))
        except (ASTXpathDefinitionError, NewErr):
            pass
        except Exception as e:  # noqa: BLE001
            require(False, "legacy-xpath-foreign-exception", f"{text!r}: {type(e).__name__}: {e}")

    # ---- texts the grammar admits but that are extreme (an index of thousands of digits): compiled, or
    # rejected with the definition error - nothing else
    for k in data["bad"][:1]:
        digits = ("7" * [40, 4300, 4301, 9000][k % 4]) if k % 2 else ("0" * [40, 4300, 4301, 9000][k % 4] + "1")
        text = f"/LInner/@items[{digits}]LLeaf"
        try:
            ASTXpath(text)
        except (ASTXpathDefinitionError, NewErr):
            pass
        except Exception as e:  # noqa: BLE001
            require(False, "legacy-xpath-foreign-exception", f"index of {len(digits)} digits: {type(e).__name__}: {e!s:.80}")
        lab.tag("huge-index")

    # ---- a class name that was unknown when a path was first compiled must be accepted once it exists
    if data.get("late") is not None:
        import sys
        import types

        import pyoak.serialize as S

        name = f"LateLegacy{data['late'] % 4}"
        S.TYPES.pop(name, None)
        for text in (f"//{name}", f"/LInner/@items[0]{name}"):
            try:
                ASTXpath(text)
                require(False, "legacy-unknown-class-accepted", text)
            except (ASTXpathDefinitionError, NewErr):
                pass
        mod = types.ModuleType("pbt_late_legacy")
        mod.__file__ = "<pbt_late_legacy>"
        sys.modules["pbt_late_legacy"] = mod
        src = ("from dataclasses import dataclass\nfrom pyoak.legacy.node import AwareASTNode\n"
               f"@dataclass\nclass {name}(AwareASTNode):\n    v: int = 0\n")
        exec(compile(src, mod.__file__, "exec", dont_inherit=True), mod.__dict__)
        from pyoak.origin import NO_ORIGIN

        inst = mod.__dict__[name](origin=NO_ORIGIN, v=1)
        holder = L.cls("LInner")(origin=NO_ORIGIN, items=(inst,))
        for text in (f"//{name}", f"/LInner/@items[0]{name}"):
            try:
                x2 = ASTXpath(text)
            except (ASTXpathDefinitionError, NewErr) as e:
                require(False, "legacy-existing-class-rejected", f"{text}: {e}")
            require(x2.match(inst) is True and x2.match(holder) is False, "legacy-xpath-late-class", text)
        S.TYPES.pop(name, None)
        sys.modules.pop("pbt_late_legacy", None)
        lab.tag("late-class")

    # ---- calculate_xpath
    non_root = b.of(specs[-1]) if n > 1 else None
    if non_root is not None:
        before = [b.of(s).xpath for s in specs]
        require(non_root.calculate_xpath() is False, "calculate_xpath-non-root", "")
        require([b.of(s).xpath for s in specs] == before, "calculate_xpath-non-root-changed-something", "")
    require(root.calculate_xpath() is True, "calculate_xpath-root", "")
    for s in specs:
        exp = "".join(f"/@{'root' if f is None else f}[{0 if i is None else i}]{c}" for f, i, c in chains[id(s)])
        require(b.of(s).xpath == exp, "calculate_xpath-path", f"node {idx[id(s)]}: {b.of(s).xpath!r} expected {exp!r}")
    # ---- a change below the root's children, then the calculation again: every node of the tree as
    # it is now carries the path of its present chain
    from pbt import legacy_engine as E

    for round_no, sel in enumerate(data.get("recalc", [])):
        deep = [(c, fn, i, p) for p in E.subtree(root) for c, fn, i in E.kids(p) if p is not root]
        if not deep:
            break
        c, fn, i, p = deep[sel % len(deep)]
        how = (sel // 7) % 4
        if type(p).__name__ == "LDyn":
            how = 2  # (replace_with needs static type info of the parent's field: none for LDyn)
        try:
            with warnings.catch_warnings():
                warnings.simplefilter("ignore", DeprecationWarning)
                if how == 0 and fn in ("items", "lst", "oseq", "opt"):
                    c.replace_with(None)  # later siblings move up
                    lab.tag("recalc-after-removal")
                elif how == 1:
                    c.replace_with(L.cls("LLeaf")(v=4, origin=c.origin))
                    lab.tag("recalc-after-replace_with")
                elif how == 3:
                    # the new node has the content of the old one (only its origin differs): content ids above
                    # it stay as they are, the tree nevertheless holds another object now
                    list(root.dfs())
                    list(p.dfs())
                    c.replace(origin=E_world_origin(c))
                    lab.tag("recalc-after-content-preserving-replace")
                else:
                    c.replace(origin=c.origin) if type(c).__name__ == "LLeafB" else c.replace(v=(int(c.v) + 1) % 5)
                    lab.tag("recalc-after-replace")
        except E.documented_errors():
            continue
        require(root.calculate_xpath() is True, "calculate_xpath-root", f"round {round_no + 2}")

        def walk(n: Any, prefix: str) -> None:
            require(n.xpath == prefix, "calculate_xpath-path-after-change",
                    f"round {round_no + 2}: {n.xpath!r} expected {prefix!r}")
            for k, kfn, ki in E.kids(n):
                walk(k, prefix + f"/@{kfn}[{0 if ki is None else ki}]{type(k).__name__}")

        walk(root, f"/@root[0]{type(root).__name__}")
        # the walkers see the tree as it is now (the very objects it holds)
        now = E.subtree(root)
        for nm, got_w in (("dfs", list(root.dfs())), ("bfs", list(root.bfs())), ("dfs-bottom-up", list(root.dfs(bottom_up=True)))):
            require(len(got_w) == len(now) and {id(x) for x in got_w} == {id(x) for x in now}, f"legacy-{nm}-sequence",
                    f"round {round_no + 2}: after a change the walk yields objects the tree no longer holds "
                    f"({sum(1 for x in got_w if x.detached)} detached)")
        pre = list(root.dfs())
        require(all(a is b_ for a, b_ in zip(pre, now)), "legacy-dfs-sequence", f"round {round_no + 2}: pre-order after a change")
    lab.nontrivial = nt and depth >= 3
    del live_idx


FIELD_CHILD = None


def _derive(chain: list[tuple], bits: int, perturb: int) -> tuple[list[dict], bool]:
    steps: list[dict] = []
    n = len(chain)
    relative = bool(bits & 1)
    bits >>= 1
    for k, (f, i, c) in enumerate(chain):
        b = bits & 15
        bits >>= 4
        last = k == n - 1
        if b & 8 and not last and n > 1:
            if not steps or not X.is_marker(steps[-1]):
                steps.append({"field": None, "index": None, "cls": None})
            continue
        mro = [*L.BASES[c], "AwareASTNode"]
        cls_: str | None = mro[0] if b & 4 else mro[(perturb + k) % len(mro)]
        step = {"field": f if b & 1 else None, "index": (str(i) if i is not None else "") if b & 2 else None, "cls": cls_}
        steps.append(step)
    if relative and steps and X.is_marker(steps[0]):
        relative = False
    for p, sel in ((perturb % 8, perturb // 64), ((perturb // 8) % 8, perturb // 128 + 1)):
        real = [s for s in steps if not X.is_marker(s)]
        if p == 1 and real:
            s = real[sel % len(real)]
            if s["index"] not in (None, ""):
                s["index"] = str(int(s["index"]) + 1)
        elif p == 2 and real:
            s = real[sel % len(real)]
            if s["index"] not in (None, "") and len(s["index"]) >= 2:
                s["index"] = s["index"][0]  # what a first-digit-only parser would read
        elif p == 3 and real and FIELD_CHILD:
            real[sel % len(real)]["field"] = FIELD_CHILD
        elif p == 4 and len(real) >= 3:
            # drop a middle step without leaving a `//` behind: adjacency must now fail
            victim = real[1 + sel % (len(real) - 2)]
            steps = [s for s in steps if s is not victim]
        elif p == 5:
            # turn one `//` into `/`
            markers = [s for s in steps if X.is_marker(s)]
            if markers:
                victim = markers[sel % len(markers)]
                steps = [s for s in steps if s is not victim]
        elif p == 6 and len(steps) >= 2:
            # insert a `//` between two steps (a direct child is still a descendant)
            k = 1 + sel % (len(steps) - 1)
            if not X.is_marker(steps[k]) and not X.is_marker(steps[k - 1]):
                steps = [*steps[:k], {"field": None, "index": None, "cls": None}, *steps[k:]]
    return steps, relative


def st_case(ctx: Ctx):
    masks = st.lists(st.tuples(st.integers(0, 2**40), st.integers(0, 2**40)).map(list), min_size=10, max_size=10)
    gmask = st.lists(st.tuples(st.integers(0, 2 ** len(CLASS_NAMES) - 1), st.booleans(), st.integers(0, 2**40),
                               st.integers(0, 2**40), st.booleans()).map(list), min_size=3, max_size=3)
    raw = st.tuples(st.just("raw"), X.st_steps(CLASS_NAMES, FIELD_NAMES), st.booleans(), st.integers(0, 2**12)).map(list)
    derived = st.tuples(st.just("derived"), st.integers(0, 60), st.integers(0, 2**30), st.integers(0, 500),
                        st.sampled_from([0, 0, 5, 1023])).map(list)
    subseq = st.tuples(st.just("subseq"), st.integers(0, 60), st.integers(0, 255), st.integers(0, 255),
                       st.integers(0, 2**16)).map(list)
    tree = st.one_of(L.st_tree(leaves=ctx.pick(9, 13)), L.st_tree(leaves=ctx.pick(14, 18), width=2, wide=False))
    return st.fixed_dictionaries({
        "tree": tree, "start": st.sampled_from([0, 0, 0, 1, 2, 5]), "masks": masks, "gather": gmask,
        "xpaths": st.lists(st.one_of(raw, derived, derived, subseq, subseq), min_size=5, max_size=5),
        "bad": st.lists(st.integers(0, 30), min_size=2, max_size=2), "thorough": st.just(ctx.thorough),
        "late": st.one_of(st.none(), st.none(), st.none(), st.integers(0, 3)),
        "recalc": st.lists(st.integers(0, 10_000), max_size=2),
    })


def enum_deep(ctx: Ctx):
    for shape in ("req", "items", "lst", "mixed"):
        for factor in ((2, 4) if ctx.thorough else (2,)):
            for variant in range(4):
                yield {"shape": shape, "factor": factor, "variant": variant}


def check_deep(data: dict, lab: Labels) -> None:
    """an attached chain far deeper than the recursion limit: dfs / bfs / gather still enumerate it"""
    import sys

    from pyoak.legacy.match.xpath import ASTXpath

    with warnings.catch_warnings():
        warnings.simplefilter("ignore", DeprecationWarning)
        nodes = L.build_chain(sys.getrecursionlimit() * data["factor"] + 37, data["shape"])
        root, leaf = nodes[0], nodes[-1]
        lab.tag("deep-chain")
        lab.sample_class = "deep"
        v = data["variant"]
        skip = bool(v % 2)
        mid = nodes[len(nodes) // 2]
        below = {id(n) for n in nodes[len(nodes) // 2 + 1:]}
        if v < 2:
            exp = nodes[1:] if skip else nodes
            kw: dict = {}
        else:
            exp = [n for n in (nodes[1:] if skip else nodes) if id(n) not in below]
            kw = {"prune": lambda n: n is mid}

        def same(name: str, got: list, want: list) -> None:
            require(len(got) == len(want) and all(g is w for g, w in zip(got, want)), name,
                    f"{len(got)} nodes, expected {len(want)}")

        same("legacy-dfs-deep", list(root.dfs(skip_self=skip, **kw)), exp)
        same("legacy-dfs-bottom-up-deep", list(root.dfs(skip_self=skip, bottom_up=True, **kw)), exp[::-1])
        same("legacy-bfs-deep", list(root.bfs(skip_self=skip, **kw)), exp)
        same("legacy-gather-deep", list(root.gather(L.cls("LLeaf"))), [leaf])
        require(ASTXpath("//LLeaf").match(leaf) is True and ASTXpath("//LLeaf").match(root) is False, "legacy-xpath-match", "deep")
        lab.nontrivial = True
        for n in nodes:
            n.detach_self()


PARTS = [Part("trees", check_tree, strategy=st_case, quick=7200, thorough=160000),
         Part("deep", check_deep, enumerate=enum_deep,
              exhaustive_note="4 chain shapes x depth 2x (thorough: and 4x) the recursion limit x {plain, skip_self, prune, both}")]
