"""C16 — serialization options apply to the whole call and to nothing after it."""
from __future__ import annotations

import copy
import dataclasses
import enum
import json
from pathlib import PurePath
from typing import Any

from hypothesis import strategies as st

from pbt import models_v2 as M
from pbt import origins as og
from pbt import trees as T
from pbt.runtime import short_tb, Ctx, Labels, Part, require

PROP = "C16"
RULE = (
    "programs of up to 15 calls over 2 Hypothesis trees (all origin kinds, BombNode properties whose "
    "(de)serialization raises while armed, a field name sorting before the type tag): call in "
    "{as_dict, to_json, to_msgpck, to_yaml, as_obj, from_json, from_msgpck, from_yaml, "
    "Source.all_as_dict, Source.load_serialized_sources} x option subset of {SKIP_CLASS, SORT_KEYS, "
    "explorer / test dialect, index-based sources, a mashumaro Dialect shifting ints}; faults: a bomb "
    "armed at a chosen node, or the payload corrupted at a drawn nested path (key removed, wrong "
    "type, unknown type tag, unknown source index). After every call, returning or raising, a default "
    "as_dict() of a probe tree must equal (key order included) the reference taken at the start and a "
    "default as_obj() of a reference payload must re-create the reference tree. The output of every "
    "successful serialization call is compared, key order included, with a reference serializer "
    "(own reflection over dataclass fields) for the given options - every nested mapping. "
    "non-trivial = an optioned call precedes a probe and the program contains a failing call."
)
ASSUMPTIONS = [
    "reference serializer in pbt/props/c16.py (dataclass field order, mashumaro's documented scalar encodings)",
    "the AST_TEST dialect's own output is not modelled (only its isolation); corrupt-payload errors may be any exception",
]
FLOORS = {"programs:failing-serialization": 0.08, "programs:failing-deserialization": 0.2}

O_SKIP, O_SORT, O_EXPL, O_TEST, O_INDEX, O_DIALECT, O_OMIT = 1, 2, 4, 8, 16, 32, 64
FMTS = ["dict", "json", "msgpack", "yaml"]


def _dialect():
    from mashumaro.dialect import Dialect

    global _SHIFT, _OMIT
    try:
        return _SHIFT
    except NameError:
        pass

    class Shift(Dialect):
        serialization_strategy = {int: {"serialize": lambda x: x + 1000, "deserialize": lambda x: x - 1000}}  # noqa: RUF012

    class OmitNone(Dialect):
        omit_none = True

    _SHIFT = Shift
    _OMIT = OmitNone
    return Shift


def _omit_dialect():
    _dialect()
    return _OMIT


def options(mask: int) -> tuple[dict | None, Any]:
    from pyoak.node import ASTSerializationDialects
    from pyoak.origin import SOURCE_OPTIMIZED_SERIALIZATION_KEY
    from pyoak.serialize import SerializationOption

    o: dict = {}
    if mask & O_SKIP:
        o[SerializationOption.SKIP_CLASS] = True
    if mask & O_SORT:
        o[SerializationOption.SORT_KEYS] = True
    if mask & O_EXPL:
        o["ast_serialize_dialect"] = ASTSerializationDialects.AST_EXPLORER
    elif mask & O_TEST:
        o["ast_serialize_dialect"] = ASTSerializationDialects.AST_TEST
    if mask & O_INDEX:
        o[SOURCE_OPTIMIZED_SERIALIZATION_KEY] = True
    return (o or None), (_dialect() if mask & O_DIALECT else (_omit_dialect() if mask & O_OMIT else None))


# --------------------------------------------------------------------- reference serializer


def _finish(cls_name: str, d: dict, mask: int) -> dict:
    if mask & O_OMIT and not mask & O_DIALECT:
        d = {k: v for k, v in d.items() if v is not None}  # mashumaro's omit_none, at every level
    out: dict = {}
    if not mask & O_SKIP:
        out["__type"] = cls_name
    if mask & O_SORT:
        for k in sorted(d):
            out[k] = d[k]
    else:
        out.update(d)
    return out


def ref_value(v: Any, mask: int, shift: bool) -> Any:
    from pyoak.node import ASTNode
    from pyoak.origin import Origin

    if isinstance(v, ASTNode):
        return ref_node(v, mask, shift)
    if isinstance(v, Origin):
        return ref_origin(v, mask, shift)
    if isinstance(v, enum.Enum):  # before str: an enum with a str mixin is written as its plain value
        return str.__str__(v) if isinstance(v, str) else v.value
    if isinstance(v, bool) or v is None or isinstance(v, (str, float)):
        return v
    if isinstance(v, int):
        return v + 1000 if shift else v
    if isinstance(v, PurePath):
        return v.as_posix()
    if isinstance(v, bytes):
        import base64

        return base64.encodebytes(v).decode()
    if isinstance(v, (tuple, list, frozenset)):  # only empty frozensets occur (field defaults)
        return [ref_value(x, mask, shift) for x in v]
    if type(v).__name__ == "Bomb":
        return {"tag": v.tag}
    raise ValueError(f"reference serializer: {type(v)}")


def ref_node(n: Any, mask: int, shift: bool) -> dict:
    d = {f.name: ref_value(getattr(n, f.name), mask, shift) for f in dataclasses.fields(n)}
    if type(n).__name__ == "BombNode":
        d["Added"] = len(n.items)  # the class's own __post_serialize__ hook adds this key (no field of that name)
    out = _finish(type(n).__name__, d, mask)
    if mask & O_EXPL:
        out["_children"] = [f.name for f in M.child_fields(type(n).__name__)]
    return out


def ref_source(s: Any, mask: int, shift: bool, registry_index) -> dict:
    from pyoak import origin as O

    if isinstance(s, O.NoSource):
        return {}
    if mask & O_INDEX:
        return {"idx": registry_index(s)}
    d = {}
    for f in dataclasses.fields(s):
        if f.name == "_raw":
            continue
        v = getattr(s, f.name)
        if f.name == "sources":
            d[f.name] = [ref_source(x, mask, shift, registry_index) for x in v]
        else:
            d[f.name] = ref_value(v, mask, shift)
    return _finish(type(s).__name__, d, mask)


def ref_position(p: Any, mask: int, shift: bool) -> dict:
    from pyoak import origin as O

    if isinstance(p, O.NoPosition):
        return {}
    if isinstance(p, O.CodeRange):
        d = {k: _finish("CodePoint", {"index": ref_value(getattr(p, k).index, mask, shift),
                                       "line": ref_value(getattr(p, k).line, mask, shift),
                                       "column": ref_value(getattr(p, k).column, mask, shift)}, mask)
             for k in ("start", "end")}
        return _finish("CodeRange", d, mask)
    if isinstance(p, O.XMLPath):
        return _finish("XMLPath", {"xpath": p.xpath}, mask)
    if isinstance(p, O.EntireSourcePosition):
        return _finish("EntireSourcePosition", {}, mask)
    if isinstance(p, O.PositionSet):
        return _finish("PositionSet", {"positions": [ref_position(x, mask, shift) for x in p.positions]}, mask)
    raise ValueError(type(p))


def ref_origin(o: Any, mask: int, shift: bool) -> dict:
    from pyoak import origin as O

    def registry_index(s: Any) -> int:
        return O.Source._sources[s]

    if isinstance(o, O.NoOrigin):
        return {}
    d: dict = {"source": ref_source(o.source, mask, shift, registry_index),
               "position": ref_position(o.position, mask, shift)}
    if isinstance(o, O.MultiOrigin):
        d["origins"] = [ref_origin(m, mask, shift) for m in o.origins]
    return _finish(type(o).__name__, d, mask)


def ordered(d: Any) -> str:
    """key-order preserving canonical text"""
    return json.dumps(d, ensure_ascii=True, default=repr)


def first_difference(a: Any, b: Any, path: str = "$") -> str | None:
    if isinstance(a, dict) and isinstance(b, dict):
        if list(a.keys()) != list(b.keys()):
            return f"{path}: keys {list(a.keys())} vs expected {list(b.keys())}"
        for k in a:
            d = first_difference(a[k], b[k], f"{path}.{k}")
            if d:
                return d
        return None
    if isinstance(a, (list, tuple)) and isinstance(b, (list, tuple)):
        if len(a) != len(b):
            return f"{path}: length {len(a)} vs {len(b)}"
        for i, (x, y) in enumerate(zip(a, b)):
            d = first_difference(x, y, f"{path}[{i}]")
            if d:
                return d
        return None
    if type(a) is not type(b) or a != b:
        return f"{path}: {a!r} vs expected {b!r}"
    return None


# ------------------------------------------------------------------------------ machine


def _decode(fmt: str, payload: Any) -> Any:
    import msgpack
    import orjson
    import yaml

    if fmt == "dict":
        return payload
    if fmt == "json":
        return orjson.loads(payload)
    if fmt == "msgpack":
        import base64

        def norm(x: Any) -> Any:  # MessagePack carries bytes natively; the reference spells them as base64 text
            if isinstance(x, bytes):
                return base64.encodebytes(x).decode()
            if isinstance(x, dict):
                return {k: norm(v) for k, v in x.items()}
            if isinstance(x, list):
                return [norm(v) for v in x]
            return x

        return norm(msgpack.unpackb(payload, raw=False))
    return yaml.load(payload, Loader=getattr(yaml, "CSafeLoader", yaml.SafeLoader))


def _call_ser(node: Any, fmt: str, opts: dict | None, dialect: Any) -> Any:
    if fmt == "dict":
        return node.as_dict(mashumaro_dialect=dialect, serialization_options=opts)
    if fmt == "json":
        return node.to_json(serialization_options=opts)
    if fmt == "msgpack":
        return node.to_msgpck(serialization_options=opts)
    return node.to_yaml(mashumaro_dialect=dialect, serialization_options=opts)


def _call_de(cls: Any, fmt: str, payload: Any, opts: dict | None, dialect: Any) -> Any:
    if fmt == "dict":
        return cls.as_obj(payload, mashumaro_dialect=dialect, serialization_options=opts)
    if fmt == "json":
        return cls.from_json(payload, serialization_options=opts)
    if fmt == "msgpack":
        return cls.from_msgpck(payload, serialization_options=opts)
    return cls.from_yaml(payload, mashumaro_dialect=dialect, serialization_options=opts)


def _paths(d: Any, path: tuple = ()) -> list[tuple]:
    out = []
    if isinstance(d, dict):
        for k, v in d.items():
            out.append(path + (k,))
            out.extend(_paths(v, path + (k,)))
    elif isinstance(d, list):
        for i, v in enumerate(d):
            out.extend(_paths(v, path + (i,)))
    return out


def corrupt(d: Any, how: int, where: int) -> bool:
    """corrupts the payload in place at a drawn nested key"""
    ps = _paths(d)
    if not ps:
        return False
    if how % 4 == 2:
        ps = [p for p in ps if p[-1] == "__type"] or ps
    if how % 4 == 3:
        ps = [p for p in ps if p[-1] == "idx"] or [p for p in ps if p[-1] == "source"] or ps
    p = ps[where % len(ps)]
    cur = d
    for k in p[:-1]:
        cur = cur[k]
    if how % 4 == 0:
        del cur[p[-1]]
    elif how % 4 == 1:
        cur[p[-1]] = [1, 2] if not isinstance(cur[p[-1]], list) else 7
    elif how % 4 == 2:
        cur[p[-1]] = "NoSuchClassAnywhere"
    else:
        cur[p[-1]] = 9999 if p[-1] == "idx" else {"idx": 9999}
    return True


def check_program(data: dict, lab: Labels) -> None:
    from pyoak.node import ASTNode
    from pyoak.origin import Source

    Bomb = M.load().Bomb
    Bomb.armed = set()
    Bomb.armed_de = set()
    sources = og.make_sources()
    trees = []
    for spec in data["trees"]:
        e, _ = T.expand(spec)
        trees.append(T.Built(e, sources).root)
    probe_e, _ = T.expand(PROBE_SPEC)
    probe = T.Built(probe_e, sources).root
    ref_probe = ordered(probe.as_dict())
    exp_probe = ordered(ref_node(probe, 0, False))
    require(ref_probe == exp_probe, "default-output-vs-reference",
            first_difference(json.loads(ref_probe), json.loads(exp_probe)) or "")
    # payload for the deserialization probe: a tree that is re-created every time
    dp_e, _ = T.expand(DEPROBE_SPEC)
    dp = T.Built(dp_e, sources).root
    dp_payload = dp.as_dict()
    dp_dump = T.live_key(dp, with_origin=True, with_noncompare=True, sources=sources)
    dp.detach()
    DP = type(dp)
    del dp
    state = {"optioned": False, "failed": False, "n": 0}

    owned: dict[int, dict] = {}

    def probes(after: str) -> None:
        cur = state.pop("cur", None)
        if cur is not None and cur[1] is not None:
            fresh = options(cur[0])[0]
            require(cur[1] == fresh, "callers-options-mapping-modified",
                    f"after {after}: {sorted(map(str, cur[1]))} vs {sorted(map(str, fresh))}")
            # what the caller does to its mapping afterwards is no business of later calls
            from pyoak.serialize import SerializationOption

            extra = SerializationOption.SKIP_CLASS if SerializationOption.SKIP_CLASS not in cur[1] else SerializationOption.SORT_KEYS
            had = extra in cur[1]
            if not had:
                cur[1][extra] = True
            try:
                _probes(after + " (+ the caller adds an option to its mapping)")
            finally:
                if not had:
                    del cur[1][extra]
            return
        _probes(after)

    def _probes(after: str) -> None:
        # the inherited mashumaro entry point (takes no options at all) sees the default state as well;
        # asked first, before any option-less pyoak call could reset anything
        got_native = ordered(probe.to_dict())
        require(got_native == ref_probe, "options-leaked-into-later-serialization",
                f"after {after}, to_dict(): {first_difference(json.loads(got_native), json.loads(ref_probe))}")
        got = ordered(probe.as_dict())
        require(got == ref_probe, "options-leaked-into-later-serialization",
                f"after {after}: {first_difference(json.loads(got), json.loads(ref_probe))}")
        r = DP.as_obj(copy.deepcopy(dp_payload))
        k = T.live_key(r, with_origin=True, with_noncompare=True, sources=sources)
        r.detach()
        require(k == dp_dump, "options-leaked-into-later-deserialization", f"after {after}")
        if state["optioned"] and state["failed"]:
            lab.nontrivial = True

    for o in data["ops"]:
        state["n"] += 1
        kind = o[0]
        if kind in ("ser", "de"):
            _, ti, fi, mask, fault, where = o
            node = trees[ti % len(trees)]
            fmt = FMTS[fi % 4]
            if fmt in ("json", "msgpack"):
                mask &= ~(O_DIALECT | O_OMIT)  # mashumaro dialects are not supported by these front-ends
            opts, dialect = options(mask)
            if opts is not None:
                # the options mapping belongs to the caller: one object per option set is re-used for
                # every call of the program with that set
                opts = owned.setdefault(mask, opts)
                lab.tag_if(state.get("used", {}).get(mask, 0) >= 1, "options-object-reused")
                state.setdefault("used", {})[mask] = state.get("used", {}).get(mask, 0) + 1
            state["optioned"] = state["optioned"] or bool(mask)
            state["cur"] = (mask, opts)
        if kind == "ser":
            bombs = sorted({n.bomb.tag for n in T.live_nodes(node) if type(n).__name__ == "BombNode"})
            armed = None
            if fault and bombs:
                armed = bombs[where % len(bombs)]
                Bomb.armed = {armed}
            desc = f"call {state['n']} {fmt} options={mask} armed={armed}"
            # re-entrancy: while a bomb of this tree is written, an option-less call on the probe tree
            # runs inside its _serialize; that inner call gives the default output and the outer call
            # goes on under its own options
            nested_on = bool(bombs) and armed is None and where % 4 == 1
            if nested_on:
                Bomb.nested = {bombs[where % len(bombs)]}
                Bomb.nested_results = []
                Bomb.nested_call = lambda: ordered(probe.as_dict())
                desc += " nested-call"
                lab.tag("nested-call-inside-serialization")
            n_sources = len(Source.list_registered_sources())
            try:
                out = _call_ser(node, fmt, opts, dialect)
                require(armed is None, "armed-bomb-did-not-raise", desc)
                # writing a tree leaves nothing behind, in the source registry either (later index-based
                # output and `Source.all_as_dict()` depend on it)
                require(len(Source.list_registered_sources()) == n_sources, "options-leaked-into-later-serialization",
                        f"{desc}: the call registered {len(Source.list_registered_sources()) - n_sources} new source(s)")
            except M.load().BombError:
                require(armed is not None, "unexpected-bomb", desc)
                out = None
                state["failed"] = True
                lab.tag("failing-serialization")
            finally:
                Bomb.armed = set()
                Bomb.nested = set()
                Bomb.nested_call = None
            if nested_on:
                for inner in Bomb.nested_results:
                    require(inner == ref_probe, "options-leaked-into-nested-call",
                            f"{desc}: {first_difference(json.loads(inner), json.loads(ref_probe))}")
                Bomb.nested_results = []
            if out is not None and not mask & O_TEST:
                got = _decode(fmt, out)
                exp = ref_node(node, mask, bool(mask & O_DIALECT))
                if fmt in ("json", "msgpack", "yaml"):
                    exp = json.loads(json.dumps(exp))
                if fmt == "yaml":  # yaml.dump orders mapping keys itself; order is not observable there
                    got, exp = json.loads(json.dumps(got, sort_keys=True)), json.loads(json.dumps(exp, sort_keys=True))
                d = first_difference(got, exp)
                require(d is None, "options-not-applied-to-every-nested-object", f"{desc}: {d}")
                lab.tag("output-compared")
            probes(desc)
        elif kind == "de":
            # the payload is produced with the same options (a serialization call of its own)
            try:
                payload = _call_ser(node, "dict", opts, dialect if fmt in ("dict", "yaml") else None)
            except Exception:  # noqa: BLE001
                probes("payload production")
                continue
            probes(f"call {state['n']} payload production options={mask}")
            how = fault
            did = False
            if how:
                did = corrupt(payload, how, where)
            import msgpack
            import orjson
            import yaml

            wire: Any = payload
            try:
                if fmt == "json":
                    wire = orjson.dumps(payload)
                elif fmt == "msgpack":
                    wire = msgpack.packb(payload, use_bin_type=True)
                elif fmt == "yaml":
                    wire = yaml.dump(payload)
            except Exception:  # noqa: BLE001
                continue
            bombs = sorted({n.bomb.tag for n in T.live_nodes(node) if type(n).__name__ == "BombNode"})
            if fault == 0 and bombs and where % 3 == 0:
                Bomb.armed_de = {bombs[where % len(bombs)]}
            if fault or where % 2 == 0:
                node.detach()  # so that deserialization descends (and meets the fault)
            desc = f"call {state['n']} from_{fmt} options={mask} corrupt={how if did else 0} bomb_de={sorted(Bomb.armed_de)}"
            state["cur"] = (mask, opts)
            nested_de = bool(bombs) and not Bomb.armed_de and not did and where % 4 == 1
            if nested_de:
                Bomb.nested = set(bombs)
                Bomb.nested_results = []
                Bomb.nested_call = lambda: ordered(probe.as_dict())
                desc += " nested-call"
                lab.tag("nested-call-inside-deserialization")
            try:
                res = _call_de(type(node), fmt, wire, opts, dialect)
                if dialect is not None and mask & O_DIALECT and not did and res is not node and type(res) is type(node):
                    # the dialect of the call (ints are written + 1000 and read - 1000) reached every
                    # mapping of the payload, tagged or not: wherever the tree read has the class of the tree
                    # written (untagged payloads lose subclasses), it has its int properties too
                    dd = _first_int_difference(res, node)
                    require(not dd, "options-not-applied-on-reading", f"{desc}: the dialect did not reach every nested object: {dd}")
                    lab.tag("dialect-read-back-compared")
                    lab.tag_if(bool(mask & O_SKIP), "dialect-read-back-compared-untagged")
                del res
                lab.tag("deserialization-ok")
            except Exception as e:  # noqa: BLE001 - any rejection of a corrupt payload is fine
                # ... but an undamaged payload written with the same (round-trippable) options is read
                require(did or bool(Bomb.armed_de) or bool(mask & (O_SKIP | O_TEST | O_OMIT | O_DIALECT)), "options-not-applied-on-reading",
                        f"{desc}: the payload this call's options produced was rejected: {short_tb(e)}")
                state["failed"] = True
                lab.tag("failing-deserialization")
                del e
            finally:
                Bomb.armed_de = set()
                Bomb.nested = set()
                Bomb.nested_call = None
            if nested_de:
                for inner in Bomb.nested_results:
                    require(inner == ref_probe, "options-leaked-into-nested-call",
                            f"{desc}: {first_difference(json.loads(inner), json.loads(ref_probe))}")
                Bomb.nested_results = []
            if dialect is not None and mask & O_DIALECT and not mask & (O_TEST | O_EXPL | O_OMIT) and fmt in ("dict", "yaml"):
                # the same call on trees whose child fields are typed exactly (an untagged payload of them can be
                # read back): the dialect reaches the untagged nested mappings too
                for t in (M.cls("Mixed")(child=None, items=(), v=where),
                          M.cls("Seq")(items=(), pair=(M.cls("LeafA")(v=where + 1), M.cls("LeafB")(v=where + 2)))):
                    pl = _call_ser(t, "dict", opts, dialect)
                    wire2 = pl if fmt == "dict" else yaml.dump(pl)
                    t.detach()
                    state["cur"] = (mask, opts)
                    back = _call_de(type(t), fmt, wire2, opts, dialect)
                    dd = _first_int_difference(back, t)
                    require(type(back) is type(t) and not dd, "options-not-applied-on-reading",
                            f"{desc}: exactly typed {type(t).__name__}: the dialect did not reach every nested object: {dd}")
                    back.detach()
                lab.tag("dialect-read-back-exactly-typed" + ("-untagged" if mask & O_SKIP else ""))
            probes(desc)
        elif kind == "all_as_dict":
            Source.all_as_dict(mashumaro_dialect=_dialect() if o[1] else None)
            probes("Source.all_as_dict")
        elif kind == "load_sources":
            Source.load_serialized_sources(Source.all_as_dict())
            probes("Source.load_serialized_sources")
    lab.count("calls", len(data["ops"]))


def _same_shape(a: Any, b: Any) -> bool:
    if type(a) is not type(b):
        return False
    ka, kb = list(T.live_children(a)), list(T.live_children(b))
    return len(ka) == len(kb) and all(x[1:] == y[1:] and _same_shape(x[0], y[0]) for x, y in zip(ka, kb))


def _first_int_difference(a: Any, b: Any) -> str:
    """parallel walk as far as the classes agree; compares int-valued (and int-tuple-valued) properties"""
    if type(a) is not type(b):
        return ""
    for f in M.prop_fields(type(a).__name__):
        va, vb = getattr(a, f.name, None), getattr(b, f.name, None)
        ints = lambda v: type(v) is int or (isinstance(v, tuple) and v and all(type(e) is int for e in v))  # noqa: E731
        if ints(vb) and va != vb:
            return f"{type(a).__name__}.{f.name}: read {va!r:.60}, written {vb!r:.60}"
    for (x, fn, i), (y, fn2, i2) in zip(T.live_children(a), T.live_children(b)):
        if (fn, i) != (fn2, i2):
            break
        d = _first_int_difference(x, y)
        if d:
            return f"{fn}[{i}] {d}"
    return ""


PROBE_SPEC = {
    "c": "BombNode", "o": ["code", 0, 1, 4], "p": {"bomb": {"$bomb": 0}, "Kind": "probe"},
    "k": {"child": {"c": "Uni", "o": ["multi", [["code", 1, 0, 2], ["xml", 3, "/a/b"]]],
                    "k": {"one": {"c": "LeafA", "p": {"v": 3}, "o": ["gen", 2]}, "opt": None, "un": None,
                          "ka": {"c": "SerVals", "p": {"f": 1.5, "i": 7, "t": {"$t": [1, 2]}, "os": "x"}, "o": ["no"]},
                          "kb": None}},
          "items": [{"c": "Mixed", "p": {"v": 4}, "o": ["xml", 3, "/q"],
                     "k": {"child": None, "items": [{"c": "LeafB", "p": {"v": 5}, "o": ["code", 2, 3, 3]}]}}]},
}
DEPROBE_SPEC = {
    "c": "Mixed", "o": ["code", 0, 2, 3], "p": {"v": 11},
    "k": {"child": {"c": "SerVals", "p": {"i": 12, "t": {"$t": [3, 4]}, "ft": {"$t": [5, "s"]}}, "o": ["gen", 1]},
          "items": [{"c": "LeafA", "p": {"v": 13}, "o": ["multi", [["code", 1, 0, 2], ["gen", 2]]]}]},
}


def st_program(ctx: Ctx):
    g = T.TreeGen(leaves=ctx.pick(6, 9), origin_rate=0.5, servals=True, frozensets=False, bombs=True, rev_sources=True,
                  falsy=False, wide=False)
    small = st.integers(0, 40)
    mask = st.one_of(st.integers(0, 127), st.sampled_from([O_SKIP, O_SORT, O_EXPL, O_TEST, O_INDEX, O_DIALECT, 0, O_SORT | O_SKIP,
                                                            O_OMIT | O_SORT, O_OMIT, O_SORT, O_SKIP | O_DIALECT, O_SKIP | O_DIALECT | O_SORT, O_DIALECT]))
    ser = st.tuples(st.just("ser"), small, st.integers(0, 3), mask, st.sampled_from([1, 1, 0, 0, 0]), small).map(list)
    de = st.tuples(st.just("de"), small, st.integers(0, 3), mask, st.sampled_from([1, 2, 3, 4, 0, 0]), small).map(list)
    other = st.one_of(st.tuples(st.just("all_as_dict"), st.booleans()).map(list), st.just(["load_sources"]))
    return st.fixed_dictionaries(
        {
            "trees": st.lists(g.inner_tree(), min_size=2, max_size=2),
            "ops": st.lists(st.one_of(ser, ser, de, de, other), min_size=5, max_size=ctx.pick(13, 15)),
        }
    )


PARTS = [Part("programs", check_program, strategy=st_program, quick=4800, thorough=160000)]
