"""C07 — XPath search and XPath match agree with each other and the documented semantics."""
from __future__ import annotations

from typing import Any

from hypothesis import strategies as st

from pbt import models_v2 as M
from pbt import trees as T
from pbt import xpath_ref as X
from pbt.runtime import Ctx, Labels, Part, require

PROP = "C07"
RULE = (
    "Hypothesis trees without repeated node objects (tuples up to 14 wide, subclass hierarchies, a "
    "field named `child`) x 4 xpaths per tree: raw ones from the grammar (1-4 steps, every "
    "combination of // / field / index / class per step, indices beyond 9, unused and internal "
    "field names, optional blanks between tokens, relative or absolute) and ones derived from the "
    "true chain of a drawn node, then generalised / perturbed per step by drawn bits. For each "
    "xpath: findall has no duplicates and equals, as a set, {n | match(root, n)} over every node of "
    "the tree; find is findall's first element or None; node.find/findall agree; and both equal the "
    "(trees that hold a given-up node next to the node that took over its id: findall against the "
    "reference only, both objects must be yielded) reference semantics of pbt/xpath_ref.py evaluated on the node's root chain (isinstance, field, "
    "index with all digits significant, root without field/index, absolute first step = root only). "
    "non-trivial = >= 2 real steps and a result set that is neither empty nor everything."
)
ASSUMPTIONS = [
    "the grammar in src/pyoak/match/xpath.py is the documented grammar (the README's [*] spelling is not asserted)",
    "reference semantics in pbt/xpath_ref.py",
]
FLOORS = {"trees:index>=10": 0.08, "trees:slashslash-middle": 0.15, "trees:field-child": 0.08,
          "trees:root-in-result": 0.08, "trees:NONTRIVIAL": 0.25}

CLASS_NAMES = ["ASTNode", *M.CLASS_NAMES]
FIELD_NAMES = sorted({f.name for c in M.TABLE for f in c.fields if f.is_child}) + ["root", "nosuchfield", "v", "target"]


def chain_of(e: T.ENode, parent: dict) -> list[tuple]:
    out = []
    cur = e
    while True:
        p = parent[cur.uid]
        if p is None:
            out.append((None, None, cur.cls))
            break
        out.append((p[1], p[2], cur.cls))
        cur = p[0]
    return list(reversed(out))


FIELD_CHILD = "child"


def derive(chain: list[tuple], bits: int, perturb: int) -> tuple[list[dict], bool]:
    """spell the true chain, then generalise: per element 3 bits (keep field, keep index, class
    exact/base/none) + 1 bit (replace the element and everything up to the next kept one by //)."""
    steps: list[dict] = []
    n = len(chain)
    relative = bool(bits & 1)
    bits >>= 1
    for k, (f, i, c) in enumerate(chain):
        b = bits & 15
        bits >>= 4
        last = k == n - 1
        if b & 8 and not last and n > 1:
            if not steps or not X.is_marker(steps[-1]):
                steps.append({"field": None, "index": None, "cls": None})
            continue
        mro = [*M.mro_names(c), "ASTNode"]
        cls: str | None = mro[0] if b & 4 else mro[(perturb + k) % len(mro)]
        if not last and (b & 6) == 0 and (f is not None and b & 1):
            cls = None
        step = {"field": f if b & 1 else None, "index": (str(i) if i is not None else "") if b & 2 else None, "cls": cls}
        if X.is_marker(step):
            step["cls"] = mro[-1]
        steps.append(step)
    if relative and steps and X.is_marker(steps[0]):
        relative = False
    # perturbations: off-by-one index, other field
    for p, sel in ((perturb % 8, perturb // 64), ((perturb // 8) % 8, perturb // 128 + 1)):
        real = [s for s in steps if not X.is_marker(s)]
        if p == 1 and real:
            s = real[sel % len(real)]
            if s["index"] not in (None, ""):
                s["index"] = str(int(s["index"]) + 1)
        elif p == 2 and real:
            s = real[sel % len(real)]
            if s["index"] not in (None, "") and len(s["index"]) >= 2:
                s["index"] = s["index"][0]  # what a first-digit-only parser would read
        elif p == 3 and real and FIELD_CHILD:
            real[sel % len(real)]["field"] = FIELD_CHILD
        elif p == 4 and len(real) >= 3:
            # drop a middle step without leaving a `//` behind: adjacency must now fail
            victim = real[1 + sel % (len(real) - 2)]
            steps = [s for s in steps if s is not victim]
        elif p == 5:
            # turn one `//` into `/`
            markers = [s for s in steps if X.is_marker(s)]
            if markers:
                victim = markers[sel % len(markers)]
                steps = [s for s in steps if s is not victim]
        elif p == 6 and len(steps) >= 2:
            # insert a `//` between two steps (a direct child is still a descendant)
            k = 1 + sel % (len(steps) - 1)
            if not X.is_marker(steps[k]) and not X.is_marker(steps[k - 1]):
                steps = [*steps[:k], {"field": None, "index": None, "cls": None}, *steps[k:]]
    return steps, relative


MRO_OF = lambda c: [*M.mro_names(c), "ASTNode"]  # noqa: E731


def check_tree(data: dict, lab: Labels) -> None:
    from pyoak.match.xpath import ASTXpath

    b, root_e, ex = T.build(data["tree"], allow_share=False)
    root = b.root
    nodes = T.nodes_preorder(root_e)
    parent: dict = {root_e.uid: None}
    for c, p, fn, i in T.positions(root_e):
        parent[c.uid] = (p, fn, i)
    chains = {e.uid: chain_of(e, parent) for e in nodes}
    any_nt = False
    by_id: dict = {}
    for e in nodes:
        by_id.setdefault(b.of(e).id, []).append(b.of(e))
    # a given-up node next to its successor: `match` looks a node up in the Tree tables, which tell nodes
    # apart by `==`; it is defined unless two *equal* objects stand in the tree
    same_id_pairs = any(p == q for g in by_id.values() for i, p in enumerate(g) for q in g[i + 1:])
    lab.tag_if(same_id_pairs, "two-equal-objects-one-id")
    lab.tag_if(any(len(g) > 1 for g in by_id.values()) and not same_id_pairs, "two-unequal-objects-one-id")
    for xp in data["xpaths"]:
        if xp[0] == "raw":
            steps, relative, ws = xp[1], xp[2], xp[3]
            if relative and X.is_marker(steps[0]):
                relative = False
        elif xp[0] == "proplink":
            # a step naming a *property* that holds a node: properties are values, nothing is stored there
            refs = [e for e in nodes if e.cls == "Ref" and e.props.get("target") is not None]
            if not refs:
                continue
            e = refs[xp[1] % len(refs)]
            tv = b.of(e).target
            tcls = type(tv[0] if isinstance(tv, tuple) else tv).__name__
            steps = [{"field": None, "index": None, "cls": None}, {"field": None, "index": None, "cls": "Ref"},
                     *([{"field": None, "index": None, "cls": None}] if xp[2] % 2 else []),
                     {"field": "target", "index": ("" if xp[2] % 4 >= 2 and isinstance(tv, tuple) else None),
                      "cls": [tcls, "Base", "ASTNode"][xp[2] % 3]}]  # (the last step always names a class)
            relative = False
            ws = 0
            lab.tag("step-names-a-property-holding-a-node")
        elif xp[0] == "byclass":
            # every class that occurs in the tree is asked for by its own name (and by a base's name)
            present = sorted({e.cls for e in nodes})
            cn = present[xp[1] % len(present)]
            mro = MRO_OF(cn)
            steps = [{"field": None, "index": None, "cls": None},
                     {"field": None, "index": None, "cls": mro[0] if xp[2] % 3 else mro[(xp[2] // 3) % len(mro)]}]
            relative = False
            ws = 0
            lab.tag_if(cn in ("SlotLeaf", "LocalLeaf", "LocalBox", "Kids", "KwFirst"), "byclass-unusual-class")
        elif xp[0] == "subseq":
            target = nodes[xp[1] % len(nodes)]
            steps, relative = X.subsequence_path(chains[target.uid], MRO_OF, xp[2], xp[3], xp[4])
            ws = 0
        else:
            target = nodes[xp[1] % len(nodes)]
            steps, relative = derive(chains[target.uid], xp[2], xp[3])
            ws = xp[4]
        text = X.render(steps, relative, ws)
        exp = [e for e in nodes if X.matches(steps, relative, chains[e.uid], M.is_subclass)]
        exp_ids = {id(b.of(e)) for e in exp}
        x = ASTXpath(text)
        found = list(x.findall(root))
        require(len({id(n) for n in found}) == len(found), "findall-duplicates", text)
        found_ids = {id(n) for n in found}
        uid = {id(b.of(e)): e.uid for e in nodes}
        if not same_id_pairs:
            # (match() goes through Tree, whose tables are keyed by id: defined for trees without two
            # objects of one id only)
            matched = {id(b.of(e)) for e in nodes if x.match(root, b.of(e))}
            require(found_ids == matched, "findall-vs-match",
                    f"{text!r}: findall {sorted(uid.get(i, -1) for i in found_ids)} match {sorted(uid[i] for i in matched)}")
        require(found_ids == exp_ids, "xpath-vs-documented-semantics",
                f"{text!r}: library {sorted(uid.get(i, -1) for i in found_ids)} reference {sorted(e.uid for e in exp)}")
        f1 = x.find(root) if hasattr(x, "find") else root.find(x)
        require((f1 is found[0]) if found else (f1 is None), "find-vs-findall", text)
        f2 = root.find(text)
        require((f2 is found[0]) if found else (f2 is None), "node.find", text)
        via_node = list(root.findall(text))
        require(len(via_node) == len(found) and all(p is q for p, q in zip(via_node, found)), "node.findall", text)
        rs = X.real_steps(steps, relative)
        lab.tag(f"steps{len(rs)}")
        lab.tag_if(any(s["index"] not in (None, "") and int(s["index"]) >= 10 for s, _ in rs), "index>=10")
        lab.tag_if(any(a for _, a in rs[1:]), "slashslash-middle")
        lab.tag_if(any(s["field"] == "child" for s, _ in rs), "field-child")
        lab.tag_if(id(root) in exp_ids, "root-in-result")
        lab.tag_if(bool(exp), "nonempty-result")
        lab.tag(xp[0])
        if len(rs) >= 2 and 0 < len(exp) < len(nodes):
            any_nt = True
        lab.count("xpaths")
    lab.nontrivial = any_nt


def st_case(ctx: Ctx):
    g = T.TreeGen(leaves=ctx.pick(10, 14), share=False, twins=True, origin_rate=0.05, refs=True)
    g2 = T.TreeGen(leaves=ctx.pick(8, 10), share=False, twins=True, origin_rate=0.0, detach_rate=0.3, stale_pairs=True)
    raw = st.tuples(st.just("raw"), X.st_steps(CLASS_NAMES, FIELD_NAMES), st.booleans(), st.integers(0, 2**12)).map(list)
    derived = st.tuples(st.just("derived"), st.integers(0, 60), st.integers(0, 2**30), st.integers(0, 500),
                        st.sampled_from([0, 0, 0, 5, 1023, 77])).map(list)
    subseq = st.tuples(st.just("subseq"), st.integers(0, 60), st.integers(0, 255), st.integers(0, 255),
                       st.integers(0, 2**16)).map(list)
    proplink = st.tuples(st.just("proplink"), st.integers(0, 20), st.integers(0, 11)).map(list)
    byclass = st.tuples(st.just("byclass"), st.integers(0, 40), st.integers(0, 30)).map(list)
    return st.fixed_dictionaries(
        {
            "tree": st.one_of(g.inner_tree(), g.inner_tree(), g.inner_tree(), g.tree(), g2.inner_tree()),
            "xpaths": st.lists(st.one_of(raw, derived, derived, subseq, subseq, proplink, byclass), min_size=5, max_size=5),
        }
    )


def enum_deep(ctx: Ctx):
    for shape in ("one", "items", "child", "mixed"):
        for factor in ((2, 4) if ctx.thorough else (2,)):
            yield {"shape": shape, "factor": factor}


def check_deep(data: dict, lab: Labels) -> None:
    """a chain far deeper than the recursion limit: search and match still agree with the chain"""
    from pyoak.match.xpath import ASTXpath

    from pbt import origins as og

    nodes = T.build_chain(T.deep_depth(data["factor"]), data["shape"], og.make_sources())
    root, leaf = nodes[0], nodes[-1]
    lab.tag("deep-chain")
    lab.sample_class = "deep"
    x = ASTXpath("//LeafA")
    found = list(x.findall(root))
    require(len(found) == 1 and found[0] is leaf, "xpath-vs-documented-semantics", "//LeafA on a deep chain")
    require(x.match(root, leaf) is True and x.match(root, nodes[1]) is False, "findall-vs-match", "//LeafA on a deep chain")
    require(root.find("//LeafA") is leaf, "find-vs-findall", "deep")
    top, second = type(root).__name__, type(nodes[1]).__name__
    pairs = [c for p, c in zip(nodes, nodes[1:]) if type(p).__name__ == top and type(c).__name__ == second]
    x2 = ASTXpath(f"//{top}/{second}")
    got = list(x2.findall(root))
    require(len(got) == len(pairs) and {id(n) for n in got} == {id(n) for n in pairs}, "xpath-vs-documented-semantics",
            f"//{top}/{second}: {len(got)} found, {len(pairs)} expected")
    for k in (1, len(nodes) // 2, len(nodes) - 2):
        exp = any(nodes[k] is c for c in pairs)
        require(x2.match(root, nodes[k]) is exp, "findall-vs-match", f"//{top}/{second} at level {k}")
    x3 = ASTXpath(f"/{top}//LeafA")
    require([id(n) for n in x3.findall(root)] == [id(leaf)], "xpath-vs-documented-semantics", "absolute // on a deep chain")
    lab.nontrivial = True


PARTS = [Part("trees", check_tree, strategy=st_case, quick=4800, thorough=200000),
         Part("deep", check_deep, enumerate=enum_deep,
              exhaustive_note="4 chain shapes x depth 2x (thorough: and 4x) the recursion limit")]
