"""C19 — a rejected legacy operation changes nothing."""
from __future__ import annotations

import warnings
from typing import Any

from hypothesis import strategies as st

from pbt import legacy_engine as E
from pbt import models_legacy as L
from pbt.props import c18
from pbt.runtime import Ctx, Labels, Part, require

PROP = "C19"
WARM_LEGACY = True  # first-use order of the legacy classes differs between shards
RULE = (
    "a C18 program prefix (up to 20 successful-by-construction operations) followed by 1-3 "
    "operations constructed to be rejected, the rejection arising at a drawn point: constructor / "
    "replace with the same child twice (first / middle / last, same field / across fields); "
    "constructor / replace / attach with a child that is attached elsewhere, placed after 0, 1, n "
    "already processed children, as a direct child or as a grandchild of a detached (stale) subtree; "
    "id collisions (explicit id of a live node with ensure_unique_id, attach of a detached node whose "
    "id is in use again); replace with forbidden / unknown keys; replace_with violating parent / type "
    "/ optionality or failing while attaching the new subtree; transform visitors whose rule raises "
    "or returns an ill-typed node. Oracle: the call raises one of the documented errors and "
    "afterwards the snapshot of every held node (attached?, parent identity, field and index in the "
    "parent, every field value by identity / value, id, original_id, content_id) and the lookup table "
    "over all known ids are unchanged. A call that succeeds is not a C19 case (counted, checked with "
    "C18's invariants only). non-trivial = the rejection happens after a child was already processed, "
    "inside a grandchild, or on an attached receiver."
)
ASSUMPTIONS = ["snapshot in pbt/legacy_engine.py (own reflection over the class table); parent position is compared only while a parent exists"]
FLOORS = {"programs:rejected": 0.5}

REJECT_KINDS = ["ctor_dup", "ctor_parent_collision", "replace_dup", "replace_parent_collision", "attach_collision",
                "id_collision", "replace_forbidden", "replace_with_parent", "replace_with_type", "replace_with_optional",
                "replace_with_attach_fails", "transform_raises", "transform_illtyped", "ctor_grandchild_collision",
                "replace_with_stale_receiver", "shared_detached_twice", "replace_registry_collision"]


class NotApplicable(Exception):
    pass


def _attached_elsewhere(w: E.World, exclude: set[int]) -> list[Any]:
    return [n for n in w.held if not n.detached and n.parent is not None and id(n) not in exclude]


def _stale_parent_with_attached_child(w: E.World) -> list[Any]:
    """detached nodes that still reference a child which is attached under another parent"""
    out = []
    for n in w.held:
        if n.detached and any(not c.detached and c.parent is not None and c.parent is not n for c, _, _ in E.kids(n)):
            out.append(n)
    return out


def do_rejected(r: c18.Runner, o: list, lab: Labels) -> str:
    """performs one operation expected to be rejected; returns 'rejected' | 'succeeded' | 'n/a'"""
    from pyoak.legacy.node import ASTTransformVisitor

    w = r.w
    kind, a, b, c = o
    errs = E.documented_errors()
    good = w.pick_children([a, a + 1, a + 2], set())

    def call() -> Any:
        if kind == "ctor_dup":
            if not good:
                raise NotApplicable
            x = good[0]
            others = good[1:]
            if b % 3 == 0:
                return L.cls("LInner")(items=(x, *others, x), origin=w.origin(0))
            if b % 3 == 1:
                return L.cls("LInner")(req=x, items=(*others, x), origin=w.origin(0))
            return L.cls("LInner")(lst=[*others, x], un=None, opt=x, origin=w.origin(0))
        if kind == "ctor_parent_collision":
            bad = _attached_elsewhere(w, set())
            if not bad:
                raise NotApplicable
            x = bad[b % len(bad)]
            ok = [g for g in good if id(x) not in {id(y) for y in E.subtree(g)} and id(g) not in {id(y) for y in w.ancestors_of(x)}]
            k = c % (len(ok) + 1)
            lab.tag_if(k > 0, "after-processed-children")
            lab.tag_if(any(g.detached for g in ok[:k]), "after-detached-child-was-attached")
            if c % 3 == 2:  # the colliding child sits in the field added by the subclass
                lab.tag("collision-in-subclass-field")
                return L.cls("LInnerX")(items=tuple(ok), extra=x, origin=w.origin(0))
            if c % 3 == 1:
                return L.cls("LInner")(items=tuple(ok[:k]), oseq=(x, *ok[k:]), origin=w.origin(0))
            return L.cls("LInner")(items=(*ok[:k], x, *ok[k:]), origin=w.origin(0))
        if kind == "ctor_grandchild_collision":
            stale = _stale_parent_with_attached_child(w)
            if not stale:
                raise NotApplicable
            x = stale[b % len(stale)]
            ok = [g for g in good if not ({id(y) for y in E.subtree(g)} & {id(y) for y in E.subtree(x)})]
            k = c % (len(ok) + 1)
            lab.tag("grandchild-collision")
            return L.cls("LInner")(items=(*ok[:k], x, *ok[k:]), origin=w.origin(0))
        if kind == "replace_dup":
            n = w.sel(a, lambda x: type(x).__name__ in ("LInner", "LFalsy") and len(x.items) + len(x.lst) >= 1)
            under_falsy = [x for x in w.held if type(x).__name__ in ("LInner", "LFalsy") and len(x.items) + len(x.lst) >= 1
                           and x.parent is not None and type(x.parent).__name__ == "LFalsy"]
            if under_falsy and c % 3:
                n = under_falsy[a % len(under_falsy)]  # the receiver's parent is a falsy node
                lab.tag("receiver-under-falsy-parent")
            if n is None:
                raise NotApplicable
            lab.tag_if(not n.detached, "attached-receiver")
            ch = list(n.items) + list(n.lst)
            x = ch[b % len(ch)]
            if c % 2:
                return n.replace(items=(*n.items, x) if x in n.items else (x,), lst=[x] if x not in n.items else list(n.lst))
            return n.replace(items=(x, *[y for y in n.items if y is not x], x))
        if kind == "replace_parent_collision":
            n = w.sel(a, lambda x: type(x).__name__ in ("LInner", "LFalsy"))
            if n is None:
                raise NotApplicable
            excl = {id(y) for y in E.subtree(n)} | {id(y) for y in w.ancestors_of(n)}
            bad = _attached_elsewhere(w, excl)
            if not bad:
                raise NotApplicable
            x = bad[b % len(bad)]
            if id(n) in {id(y) for y in E.subtree(x)}:
                raise NotApplicable
            lab.tag_if(not n.detached, "attached-receiver")
            return n.replace(items=(*n.items, x)) if c % 2 else n.replace(opt=x)
        if kind == "replace_registry_collision":
            # a value among the changes is a detached node (a detached clone of an attached one, possibly deeper
            # in a detached new subtree) whose id is registered: the new node cannot be attached
            n = w.sel(a, lambda x: type(x).__name__ in ("LInner", "LFalsy") and not x.detached)
            if n is None:
                raise NotApplicable
            excl = {id(y) for y in E.subtree(n)} | {id(y) for y in w.ancestors_of(n)}
            live = [x for x in w.held if not x.detached and id(x) not in excl and type(x).__name__ in ("LLeaf", "LSub", "LLeafB")]
            if not live:
                raise NotApplicable
            clone = live[b % len(live)].duplicate(as_detached_clone=True)
            if c % 3 == 2:
                clone = L.cls("LInner")(req=clone, origin=w.origin(0), v=4, create_detached=True)  # the clash sits one level down
            lab.tag("attached-receiver")
            return n.replace(items=(*n.items, clone)) if c % 2 else n.replace(opt=clone)
        if kind == "attach_collision":
            cands = [n for n in w.held if n.detached and (not w.free_id(n.id) or n in _stale_parent_with_attached_child(w))]
            if not cands:
                raise NotApplicable
            n = cands[b % len(cands)]
            lab.tag_if(len(E.kids(n)) > 0, "attach-subtree")
            return n.attach()
        if kind == "id_collision":
            live = [n for n in w.held if not n.detached]
            if not live:
                raise NotApplicable
            x = live[b % len(live)]
            return L.cls("LLeaf")(v=1, origin=w.origin(1), id=x.id, ensure_unique_id=True)
        if kind == "replace_forbidden":
            n = w.sel(a)
            if n is None:
                raise NotApplicable
            lab.tag_if(not n.detached, "attached-receiver")
            key = ["id", "content_id", "original_id", "id_collision_with", "no_such_field"][b % 5]
            return n.replace(**{key: "x"})
        if kind == "replace_with_parent":
            n = w.sel(a, lambda x: x.parent is None or type(x.parent).__name__ != "LDyn")
            excl = {id(y) for y in E.subtree(n)} | {id(y) for y in w.ancestors_of(n)} if n is not None else set()
            bad = _attached_elsewhere(w, excl)
            if n is None or not bad:
                raise NotApplicable
            lab.tag_if(not n.detached, "attached-receiver")
            return n.replace_with(bad[b % len(bad)])
        if kind == "replace_with_type":
            n = w.sel(a, lambda x: not x.detached and x.parent is not None and x.parent_field.name == "un")
            if n is None:
                raise NotApplicable
            new = [g for g in good if type(g).__name__ in ("LInner", "LReq")] or [prepared["inner"]]
            lab.tag("attached-receiver")
            return n.replace_with(new[0])
        if kind == "replace_with_optional":
            n = w.sel(a, lambda x: not x.detached and x.parent is not None and type(x.parent).__name__ == "LReq")
            if n is None:
                raise NotApplicable
            lab.tag("attached-receiver")
            return n.replace_with(None)
        if kind == "replace_with_attach_fails":
            n = w.sel(a, lambda x: not x.detached and (x.parent is None or type(x.parent).__name__ != "LDyn"))
            stale = [s for s in _stale_parent_with_attached_child(w)
                     if n is not None and id(n) not in {id(y) for y in E.subtree(s)}
                     and not ({id(y) for y in E.subtree(s)} & {id(y) for y in w.ancestors_of(n)})
                     and not (n.parent is not None and n.parent_field.name == "un" and type(s).__name__ not in L.UN_CLASSES)]
            if n is None or not stale:
                raise NotApplicable
            lab.tag("attached-receiver", "grandchild-collision")
            return n.replace_with(stale[b % len(stale)])
        if kind == "replace_with_stale_receiver":
            # a stale (replaced away) receiver whose id is in use again; the new node is an attached root
            n = w.sel(a, lambda x: x.detached and not w.free_id(x.id))
            if n is None:
                raise NotApplicable
            roots = [g for g in good if not g.detached and id(g) not in {id(y) for y in E.subtree(n)}
                     and id(n) not in {id(y) for y in E.subtree(g)}] if c % 3 else \
                    [g for g in good if g.detached and id(n) not in {id(y) for y in E.subtree(g)}]
            if not roots:
                raise NotApplicable
            lab.tag("stale-receiver")
            return n.replace_with(roots[b % len(roots)])
        if kind == "shared_detached_twice":
            # one detached node object referenced by two detached parents (neither owns it); both
            # parents under one root that is being attached
            lab.tag("shared-detached-node")
            if c % 2:
                return prepared["root"].attach()
            return L.cls("LInner")(items=(*good[:1], prepared["p1"], prepared["p2"]), origin=w.origin(0))
        if kind in ("transform_raises", "transform_illtyped"):
            n = w.sel(a, lambda x: not x.detached and all(not y.detached for y in E.subtree(x)))
            if n is None:
                raise NotApplicable
            targets = [y for y in E.subtree(n)]
            t = targets[b % len(targets)]
            if kind == "transform_illtyped":
                un = [y for y in targets if y.parent is not None and not y.detached and y.parent_field.name == "un" and y is not n] or \
                    ([n] if n.parent is not None and n.parent_field.name == "un" else [])
                if not un:
                    raise NotApplicable
                t = un[b % len(un)]
            tid = t.id
            lab.tag("attached-receiver")
            lab.tag_if(t is not n, "after-processed-children")
            world = w
            # optionally remove an element visited before the failing node (its removal must be undone too)
            anc_ids = {id(a) for a in w.ancestors_of(t)} | {id(t)}
            before_t = targets[: targets.index(t)]
            removable = [y for y in before_t if id(y) not in anc_ids and y.parent_field is not None
                         and y.parent_field.name in ("items", "lst", "oseq", "opt", "extra")]
            rid = removable[c % len(removable)].id if removable and c % 2 else None
            lab.tag_if(rid is not None, "removal-before-failure")

            fail_late = c % 2 == 0  # the rule fails after the node's own subtree was processed
            rewrite = (a + b) % 2 == 0  # leaves visited before the failing node are rewritten
            lab.tag_if(rewrite, "rewrites-before-failure")

            class V(ASTTransformVisitor):
                def generic_visit(self, node):  # noqa: ANN001
                    if rid is not None and node.id == rid:
                        return None
                    if rewrite and node.id != tid and type(node).__name__ in ("LLeaf", "LSub"):
                        return node.replace(v=int(node.v) + 10)
                    if node.id == tid:
                        if kind == "transform_raises":
                            if fail_late:
                                super().generic_visit(node)  # the node's subtree is processed first
                            raise RuntimeError("rule failed")
                        if prepared.get("root_inner") is not None and c % 3 >= 1:
                            # the rule hands back a tree that existed before (an attached root of its own)
                            lab.tag("rule-returns-pre-existing-attached-root")
                            return prepared["root_inner"]
                        return L.cls("LInner")(origin=world.origin(0), v=3, create_detached=True)
                    return super().generic_visit(node)

            vis = V()
            if (a + b + c) % 3 == 0:
                # the same visitor object is used again after a failed run
                lab.tag("visitor-reused-after-failure")
                try:
                    vis.transform(n)
                except errs as e1:
                    e1.__traceback__ = None
            return vis.transform(n)
        raise ValueError(kind)

    prepared: dict = {}
    if kind == "transform_illtyped":
        prepared["root_inner"] = w.hold(L.cls("LInner")(origin=w.origin(0), v=5, items=(L.cls("LLeaf")(v=1, origin=w.origin(0)),)))
    if kind == "replace_with_type":
        prepared["inner"] = w.hold(L.cls("LInner")(origin=w.origin(0), v=2))  # created before the snapshot
    if kind == "shared_detached_twice":
        if b % 3 == 2:
            # the shared node is an *attached root* (it may be adopted by one new parent only)
            sh = w.hold(L.cls("LLeaf")(v=b % 4, origin=w.origin(0)))
            lab.tag("shared-attached-root")
        else:
            sh = L.cls("LLeaf")(v=b % 3, origin=w.origin(0), create_detached=True)
            if b % 3 == 1:
                sh = L.cls("LInner")(req=sh, origin=w.origin(0), create_detached=True)  # a shared subtree
        prepared["p1"] = L.cls("LInner")(items=(sh,), v=1, origin=w.origin(0), create_detached=True)
        prepared["p2"] = L.cls("LInner")(opt=sh, v=2, origin=w.origin(0), create_detached=True) if a % 2 else \
            L.cls("LInner")(lst=[sh], v=2, origin=w.origin(0), create_detached=True)
        w.hold(prepared["p1"])
        w.hold(prepared["p2"])
        if c % 2:
            prepared["root"] = w.hold(L.cls("LInner")(items=(prepared["p1"], prepared["p2"]), v=3, origin=w.origin(0),
                                                      create_detached=True))
    before = w.snapshot()
    try:
        res = call()
    except NotApplicable:
        return "n/a"
    except errs as e:
        lab.tag("error-" + type(e).__name__)
        after = w.snapshot()
        d = w.describe_diff(before, after)
        require(d is None, "rejected-operation-changed-state", f"{kind} rejected with {type(e).__name__}, but {d}")
        e.__traceback__ = None
        return "rejected"
    except Exception as e:  # noqa: BLE001
        require(False, "undocumented-error", f"{kind}: {type(e).__name__}: {e!s:.200}")
    if res is not None and hasattr(res, "id"):
        w.hold(res)
    return "succeeded"


def check_program(data: dict, lab: Labels) -> None:
    with warnings.catch_warnings():
        warnings.simplefilter("ignore", DeprecationWarning)
        r = c18.Runner(lab)
        try:
            for o in data["prefix"]:
                r.run(o)
        except c18.Inconclusive:
            lab.tag("prefix-inconclusive")
            return
        r.w.invariants()  # the starting state must be consistent (else the failure is C18's)
        n_rej = 0
        for o in data["rejected"]:
            r.w.step_no += 1
            res = do_rejected(r, o, lab)
            lab.tag(f"{o[0]}-{res}")
            if res == "rejected":
                n_rej += 1
            elif res == "succeeded":
                lab.tag("expected-rejection-succeeded")
                break
        lab.tag_if(n_rej > 0, "rejected")
        lab.count("rejected-calls", n_rej)
        lab.nontrivial = n_rej > 0 and bool({"after-processed-children", "grandchild-collision", "attached-receiver", "stale-receiver"} & lab.tags)


def st_program(ctx: Ctx):
    s = st.integers(0, 60)
    base = c18.st_program(ctx).map(lambda d: d["ops"][:20])
    rej = st.tuples(st.sampled_from(REJECT_KINDS), s, s, s).map(list)
    return st.fixed_dictionaries({"prefix": base, "rejected": st.lists(rej, min_size=1, max_size=3)})


PARTS = [Part("programs", check_program, strategy=st_program, quick=12000, thorough=200000)]
