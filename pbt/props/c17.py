"""C17 — xpath and pattern text is either compiled or rejected with the definition error."""
from __future__ import annotations

import os
import subprocess
import sys
from typing import Any

from hypothesis import strategies as st

from pbt import models_v2 as M
from pbt import pattern_ref as P
from pbt import trees as T
from pbt import xpath_ref as X
from pbt.props import c07, c08
from pbt.runtime import Ctx, HarnessError, Labels, Part, VERIF_DIR, require

PROP = "C17"
RULE = (
    "texts: (a) well-formed patterns / xpaths rendered from grammar ASTs (C07/C08 generators), "
    "(b) single-token mutations of them (delete, duplicate, swap adjacent, replace by another token "
    "of the alphabet), (c) semantically ill-formed ones (unknown class, non-node serializable class, "
    "capture name used twice, variable before its capture, non-compiling regex), (d) random strings "
    "over the grammars' alphabets and arbitrary Unicode; thorough tier additionally runs a "
    "coverage-guided atheris campaign over UTF-8 bytes with the same oracle inside the target. "
    "Oracle: only the definition errors escape; validate_pattern / from_pattern / "
    "MultiPatternMatcher agree on acceptance; every (a) text is accepted; every (c) text of the four "
    "listed kinds is rejected; blanks inserted between tokens and re-compilation (cache hit and "
    "cleared cache) leave the behaviour on a fixed pool of trees unchanged. non-trivial = >= 3 tokens "
    "and accepted or a one-token mutation of an accepted text."
)
ASSUMPTIONS = [
    "blanks are inserted between grammar tokens only (never before the first token, never inside a name, string, index number or '->')",
    "for a non-compiling regex only totality and agreement are asserted",
    "behavioural equality is judged on a fixed pool of 4 trees (all their nodes)",
]
FLOORS = {"texts:accepted": 0.25, "texts:rejected": 0.2}

POOL_SPECS = [
    {"c": "Mixed", "p": {"v": 1}, "o": ["code", 0, 0, 2],
             "k": {"child": {"c": "LeafA", "p": {"v": 1}}, "items": [
                 {"c": "LeafA", "p": {"v": 1}}, {"c": "LeafB", "p": {"v": 2}}, {"c": "SubLeafA", "p": {"v": 3, "extra": "ab"}},
                 {"c": "Strs", "p": {"a": "a", "b": "abc"}}, {"c": "Strs", "p": {"a": "a b", "b": "a  b", "ab": "x y"}},
                 {"c": "Strs", "p": {"a": "a\tb", "b": "x  y", "ab": "x\t y"}},
                 {"c": "Strs", "p": {"a": " a", "b": "  a", "ab": "a "}}, {"c": "Strs", "p": {"a": "a  ", "b": "a b ", "ab": "a  b"}},
                 {"c": "Strs", "p": {"a": "  a", "b": "a b"}}, {"c": "Strs", "p": {"a": "a  b", "b": "a b"}},
                 {"c": "Strs", "p": {"a": "x  y", "b": "a b"}}, {"c": "Strs", "p": {"a": "a b ", "b": "a"}}]}},
    {"c": "Uni", "k": {"one": {"c": "LeafA", "p": {"v": 0}}, "opt": None, "un": {"c": "LeafB", "p": {"v": 0}},
                       "ka": {"c": "LeafA", "p": {"v": 0}, "o": ["gen", 1]}, "kb": {"c": "LeafA", "p": {"v": 0}}}},
    {"c": "Seq", "k": {"items": [{"c": "Vals", "p": {"i": 10, "b": True}},
                                 {"c": "Mixed", "p": {}, "k": {"child": None, "items": []}}],
                       "pair": [{"c": "LeafA", "p": {"v": 5}}, {"c": "LeafB", "p": {"v": 5}}]}},
    {"c": "InhMixed", "p": {"v": 2}, "k": {"child": None, "items": [{"c": "LeafA", "p": {"v": i}} for i in range(12)],
                                           "more": [{"c": "Falsy", "p": {"v": 1}}]}},
]

PAT_ALPHABET = ["(", ")", "[", "]", "@", "=", "$", "*", "|", "->", "None", '"a"', '".*"', '"["', "LeafA", "Mixed", "items",
                "v", "ka", "x", "Nope", "CodeOrigin", " ", "->ka", "1", ",", "/", "#"]
XP_ALPHABET = ["/", "@", "[", "]", "1", "0", "12", "LeafA", "Mixed", "items", "child", "Nope", "Source", " ", "*", "(", "-", "$"]


def _pool() -> list:
    roots = []
    for spec in POOL_SPECS:
        b, _, _ = T.build(spec)
        roots.append(b.root)
    return roots


def pattern_behaviour(m: Any, roots: list) -> list:
    out = []
    for r in roots:
        for n in T.live_nodes(r):
            try:
                ok, caps = m.match(n)
                out.append((ok, tuple(sorted((k, id(v) if not isinstance(v, tuple) else tuple(map(id, v)))
                                             for k, v in caps.items()))))
            except Exception as e:  # noqa: BLE001
                out.append(("exc", type(e).__name__))
    return out


def xpath_behaviour(x: Any, roots: list) -> list:
    out = []
    for r in roots:
        ns = T.live_nodes(r)
        out.append(tuple(id(n) for n in x.findall(r)))
        out.append(tuple(x.match(r, n) for n in ns))
    return out


def compile_pattern(text: str) -> tuple[bool, Any]:
    """runs the three entry points; returns (accepted, matcher)."""
    from pyoak.match.error import ASTPatternDefinitionError
    from pyoak.match.pattern import MultiPatternMatcher, NodeMatcher, validate_pattern

    def guard(name, fn):
        try:
            return fn()
        except ASTPatternDefinitionError:
            raise
        except Exception as e:  # noqa: BLE001
            require(False, "foreign-exception-escapes", f"{name}({text!r:.200}): {type(e).__name__}: {e!s:.200}")

    v = guard("validate_pattern", lambda: validate_pattern(text))
    require(isinstance(v, tuple) and len(v) == 2 and isinstance(v[0], bool) and isinstance(v[1], str),
            "validate_pattern-result-shape", repr(v)[:200])
    f = guard("NodeMatcher.from_pattern", lambda: NodeMatcher.from_pattern(text))
    require(isinstance(f, tuple) and len(f) == 2 and isinstance(f[1], str), "from_pattern-result-shape", repr(f)[:200])
    try:
        mm = guard("MultiPatternMatcher", lambda: MultiPatternMatcher([("r", text)]))
        multi_ok = True
    except ASTPatternDefinitionError:
        multi_ok = False
        mm = None
    require(v[0] == (f[0] is not None) == multi_ok, "entry-points-disagree",
            f"{text!r:.200}: validate={v[0]} from_pattern={f[0] is not None} multi={multi_ok}")
    del mm
    return v[0], f[0]


def compile_xpath(text: str) -> Any:
    from pyoak.match.error import ASTXpathDefinitionError
    from pyoak.match.xpath import ASTXpath

    try:
        return ASTXpath(text)
    except ASTXpathDefinitionError:
        return None
    except Exception as e:  # noqa: BLE001
        require(False, "foreign-exception-escapes", f"ASTXpath({text!r:.200}): {type(e).__name__}: {e!s:.200}")


def check_text(data: dict, lab: Labels) -> None:
    import pyoak.legacy.node  # noqa: F401  (its node classes share the name table; they are no ASTNode subclasses)
    from pyoak.match import pattern as PM
    from pyoak.match import xpath as XM

    kind = data["kind"]
    lang = data["lang"]
    expect = data.get("expect")  # "accept" | "reject" | None
    if "tokens" in data:
        toks = list(data["tokens"])
        mut = data.get("mut")
        if mut:
            op, i, j = mut
            if toks:
                i %= len(toks)
                alphabet = PAT_ALPHABET if lang == "pattern" else XP_ALPHABET
                if op == "delete":
                    del toks[i]
                elif op == "dup":
                    toks.insert(i, toks[i])
                elif op == "swap" and len(toks) > 1:
                    k = i % (len(toks) - 1)
                    toks[k], toks[k + 1] = toks[k + 1], toks[k]
                else:
                    toks[i] = alphabet[j % len(alphabet)]
            lab.tag("mut-" + op)
        text = P.join_tokens(toks, 0)
        # the inserted whitespace is any of the characters the grammars ignore, also at the very end
        ws_ = data.get("ws", 0)
        blank = BLANKS[ws_ % len(BLANKS)]
        spaced = (P.join_tokens(toks, ws_, blank) + (blank if ws_ % 5 == 4 else "")) if not mut else None
        if spaced is not None and spaced != text:
            lab.tag("blank-" + {" ": "space", "\t": "tab", "\n": "lf", "\r\n": "crlf", "\f": "ff", "  ": "two"}[blank])
    else:
        text = data["text"]
        toks = text.split()
        spaced = None
    lab.tag(kind, lang)
    roots = _pool()
    if data.get("before") is not None and lang == "xpath":
        # another xpath that differs only by a blank which separates two names (`@items LeafA` is a
        # field and a class, `@itemsLeafA` one field name) was compiled first and is still in use
        from pyoak.match import xpath as _XM

        x_before = compile_xpath(data["before"])
        beh_before = xpath_behaviour(x_before, roots) if x_before is not None else None
        x_a = compile_xpath(text)
        beh_a = xpath_behaviour(x_a, roots) if x_a is not None else None
        if x_before is not None:
            require(xpath_behaviour(x_before, roots) == beh_before, "compiled-object-changed-by-later-compilations",
                    f"{data['before']!r} after {text!r} was compiled")
        _XM._AST_XPATH_CACHE.clear()
        x_b = compile_xpath(text)
        require((x_a is None) == (x_b is None), "acceptance-depends-on-compile-history", f"{text!r} after {data['before']!r}")
        if x_b is not None:
            require(xpath_behaviour(x_b, roots) == beh_a, "behaviour-depends-on-compile-history",
                    f"{text!r} compiled after {data['before']!r} behaves differently from a fresh compilation")
    elif data.get("before") is not None:
        # another text (differing only in blanks inside a quoted regex, where they are significant) was
        # compiled first: this text still gets its own meaning
        from pyoak.match import pattern as _PM

        compile_pattern(data["before"])
        ok_a, m_a = compile_pattern(text)
        beh_a = pattern_behaviour(m_a, roots) if ok_a else None
        _PM._MATCHER_CACHE.clear()
        ok_b, m_b = compile_pattern(text)
        require(ok_a == ok_b, "acceptance-depends-on-compile-history", f"{text!r} after {data['before']!r}")
        if ok_b:
            require(pattern_behaviour(m_b, roots) == beh_a, "behaviour-depends-on-compile-history",
                    f"{text!r} compiled after {data['before']!r} behaves differently from a fresh compilation")
    if lang == "pattern":
        ok, m = compile_pattern(text)
        if expect == "accept":
            require(ok, "wellformed-text-rejected", f"{text!r:.300}")
        if expect == "reject":
            require(not ok, "illformed-text-accepted", f"{data.get('why')}: {text!r:.300}")
        if ok:
            base = pattern_behaviour(m, roots)
            ok2, m2 = compile_pattern(text)  # cache hit
            require(ok2 and pattern_behaviour(m2, roots) == base, "recompilation-changes-behaviour", f"cached: {text!r:.200}")
            PM._MATCHER_CACHE.pop(text, None)
            ok3, m3 = compile_pattern(text)
            require(ok3 and pattern_behaviour(m3, roots) == base, "recompilation-changes-behaviour", f"fresh: {text!r:.200}")
            for other in (text.replace(" ", ""), " ".join(text.split()), "(* @v -> zz)", text + " "):
                if other != text:
                    compile_pattern(other)
            require(pattern_behaviour(m, roots) == base, "compiled-object-changed-by-later-compilations", f"{text!r:.200}")
            # a text that differs by one blank at an arbitrary character position (also inside a token or
            # a string) must be treated on its own merits, whatever was compiled before
            k = data.get("blank_at", 0) % (len(text) + 1)
            variant = text[:k] + " " + text[k:] if data.get("blank_at", 0) % 2 else (text[:k] + text[k + 1:] if text[k:k + 1] == " " else text[:k] + " " + text[k:])
            import re as _re

            in_str = [m.start() for m in _re.finditer(r'(?<=[^"]) (?=[^"]*"(?:[^"]*"[^"]*")*[^"]*$)', text)]
            if data.get("blank_at", 0) % 3 == 0 and in_str:
                # a blank next to a blank *inside a quoted regex* (whitespace there is significant)
                j = in_str[data.get("blank_at", 0) // 3 % len(in_str)]
                variant = text[:j] + ("\t" if data.get("blank_at", 0) % 2 else " ") + text[j:]
                lab.tag("blank-inside-string")
            okv, mv = compile_pattern(variant)
            behv = pattern_behaviour(mv, roots) if okv else None
            PM._MATCHER_CACHE.clear()
            okf, mf = compile_pattern(variant)
            require(okv == okf, "acceptance-depends-on-compile-history", f"{variant!r:.200} after {text!r:.200}: {okv} vs fresh {okf}")
            if okf:
                require(pattern_behaviour(mf, roots) == behv, "behaviour-depends-on-compile-history", f"{variant!r:.200} after {text!r:.200}")
            lab.tag("blank-variant-" + ("accepted" if okf else "rejected"))
            if spaced is not None and spaced != text:
                ok4, m4 = compile_pattern(spaced)
                require(ok4, "whitespace-changes-acceptance", f"{spaced!r:.300}")
                require(pattern_behaviour(m4, roots) == base, "whitespace-changes-meaning", f"{spaced!r:.300}")
                lab.tag("whitespace-variant")
            # definitions that pass the grammar but are rejected for their meaning, using this text's own
            # capture names, leave nothing behind: the text is accepted again and a variable that has
            # no capture is still refused
            caps = _re.findall(r"->\s*([a-z_][a-z0-9_]*)", _re.sub(r'"(?:[^"\\]|\\.)*"', '""', text))
            name = caps[data.get("blank_at", 0) % len(caps)] if caps else "zz"
            poisons = [f"(* @v -> {name} @v -> {name})", f"(* @v -> {name} @v=$nosuchvar)",
                       f"(* @v -> {name} @v=(NoSuchClassAnywhere))", f"(* @items=[(*) -> {name} (NoSuchClassAnywhere)])"]
            poison = poisons[data.get("blank_at", 0) // 7 % len(poisons)]
            okp, _mp = compile_pattern(poison)
            require(not okp, "illformed-text-accepted", f"{poison!r}")
            PM._MATCHER_CACHE.clear()
            ok5, m5 = compile_pattern(text)
            require(ok5, "acceptance-depends-on-compile-history", f"{text!r:.200} after the rejected {poison!r}")
            require(pattern_behaviour(m5, roots) == base, "behaviour-depends-on-compile-history", f"{text!r:.200} after {poison!r}")
            compile_pattern(poison)
            okq, _mq = compile_pattern(f"(* @v=${name})")
            require(not okq, "illformed-text-accepted", f"variable without capture after the rejected {poison!r}: (* @v=${name})")
            lab.tag("after-semantically-rejected-definition")
    else:
        x = compile_xpath(text)
        ok = x is not None
        if expect == "accept":
            require(ok, "wellformed-text-rejected", f"{text!r:.300}")
        if expect == "reject":
            require(not ok, "illformed-text-accepted", f"{data.get('why')}: {text!r:.300}")
        if ok:
            base = xpath_behaviour(x, roots)
            x2 = compile_xpath(text)
            require(x2 is not None and xpath_behaviour(x2, roots) == base, "recompilation-changes-behaviour", f"cached: {text!r:.200}")
            XM._AST_XPATH_CACHE.pop(text, None)
            x3 = compile_xpath(text)
            require(x3 is not None and xpath_behaviour(x3, roots) == base, "recompilation-changes-behaviour", f"fresh: {text!r:.200}")
            # compiling other texts (also ones that differ only in blanks) must not change this object
            for other in (text.replace(" ", ""), " ".join(text.split()), "//LeafA", text + " "):
                if other != text:
                    compile_xpath(other)
            require(xpath_behaviour(x, roots) == base, "compiled-object-changed-by-later-compilations", f"{text!r:.200}")
            k = data.get("blank_at", 0) % (len(text) + 1)
            variant = text[:k] + " " + text[k:] if k > 0 else text + " "
            xv = compile_xpath(variant)
            behv = xpath_behaviour(xv, roots) if xv is not None else None
            XM._AST_XPATH_CACHE.clear()
            xf = compile_xpath(variant)
            require((xv is None) == (xf is None), "acceptance-depends-on-compile-history", f"{variant!r:.200} after {text!r:.200}")
            if xf is not None:
                require(xpath_behaviour(xf, roots) == behv, "behaviour-depends-on-compile-history", f"{variant!r:.200} after {text!r:.200}")
            if spaced is not None and spaced != text:
                x4 = compile_xpath(spaced)
                require(x4 is not None, "whitespace-changes-acceptance", f"{spaced!r:.300}")
                require(xpath_behaviour(x4, roots) == base, "whitespace-changes-meaning", f"{spaced!r:.300}")
                lab.tag("whitespace-variant")
    lab.tag("accepted" if ok else "rejected")
    lab.nontrivial = len(toks) >= 3 and (ok or bool(data.get("mut")))
    lab.sample_class = f"{kind}-{lang}-{'accepted' if ok else 'rejected'}"


BLANKS = [" ", "\t", " ", "\n", "\r\n", "\f", "  "]

# ------------------------------------------------------------------------------ generators


def _xpath_tokens(steps: list[dict], relative: bool) -> list[str]:
    toks: list[str] = []
    for k, s in enumerate(steps):
        if not (relative and k == 0):
            toks.append("/")
        if s.get("field") is not None:
            toks += ["@", s["field"]]
        if s.get("index") is not None:
            toks.append("[")
            if s["index"] != "":
                toks += list(s["index"])  # one token per digit: blanks between the digits of an index mean nothing
            toks.append("]")
        if s.get("cls") is not None:
            toks.append(s["cls"])
    return toks


def st_texts(ctx: Ctx):
    mut = st.one_of(st.none(), st.tuples(st.sampled_from(["delete", "dup", "swap", "replace"]), st.integers(0, 60),
                                         st.integers(0, 60)).map(list))
    wf_pat = st.tuples(c08.st_raw_pattern(), st.integers(0, 1000)).map(lambda t: P.tokens(c08.assign_names(t[0], t[1])))
    pat = st.tuples(wf_pat, mut, st.integers(0, 2**20)).map(
        lambda t: {"kind": "mutated" if t[1] else "wellformed", "lang": "pattern", "tokens": t[0], "mut": t[1],
                   "ws": t[2], "blank_at": t[2] // 7, "expect": None if t[1] else "accept"})
    wf_xp = st.tuples(X.st_steps(c07.CLASS_NAMES, c07.FIELD_NAMES), st.booleans()).map(
        lambda t: _xpath_tokens(t[0], t[1] and not X.is_marker(t[0][0])))
    xp = st.tuples(wf_xp, mut, st.integers(0, 2**12)).map(
        lambda t: {"kind": "mutated" if t[1] else "wellformed", "lang": "xpath", "tokens": t[0], "mut": t[1],
                   "ws": t[2], "blank_at": t[2] // 3, "expect": None if t[1] else "accept"})
    ill_pat = st.sampled_from([
        ("unknown class", "(Nope)"), ("unknown class", "(LeafA | Nope @v)"), ("unknown class", "(Mixed @child=(Nope))"),
        ("non-node class", "(CodeOrigin)"), ("non-node class", "(Source @source_uri)"), ("non-node class", "(LeafA|MultiOrigin)"),
        ("non-node class", "(Mixed @items=[(CodeRange) *])"),
        # (node classes of the *legacy* package are in the same name table and are no ASTNode subclasses)
        ("non-node class", "(AwareASTNode)"), ("non-node class", "(LeafA | AwareASTNode @v)"),
        ("capture twice", "(Mixed @child -> a @items -> a)"), ("capture twice", "(Mixed @items=[(*) -> a (*) -> a])"),
        ("capture twice", "(Mixed @child=(LeafA @v -> a) -> a)"), ("capture twice", "(Mixed @items=[(*) -> a * -> a])"),
        ("variable before capture", "(Mixed @child=$a @items -> a)"), ("variable before capture", "(Mixed @items=[$a (*) -> a])"),
        ("variable before capture", "(Mixed @child=(LeafA @v=$a) -> a)"), ("variable before capture", "(Uni @one=$nope)"),
        ("syntax", "(LeafA"), ("syntax", "LeafA)"), ("syntax", "(LeafA @)"), ("syntax", "(* | LeafA)"), ("syntax", ""),
        ("syntax", "(LeafA @v -> A)"), ("syntax", "(LeafA @v -> a_)"), ("syntax", "(LeafA @v = )"),
    ]).map(lambda t: {"kind": "illformed", "lang": "pattern", "text": t[1], "expect": "reject", "why": t[0]})
    regex_bad = st.sampled_from(['(LeafA @v="[")', '(LeafA @v="(")', '(Strs @a="*a")',
                                 # regexes the re module refuses with something else than re.error
                                 '(LeafA @v="a{4294967296}")', '(LeafA @v="a{99999999999999999999}")',
                                 '(Strs @a="' + "(" * 3000 + ")" * 3000 + '")', '(Strs @a="(?P<n>a)(?P<n>b)")',
                                 '(Strs @a="\\")', '(Strs @a="(?z)")', '(Strs @a="[b-a]")', '(Strs @a="a**")',
                                 '(Strs @a="\\N{NO SUCH NAME}")', '(Strs @a="(?<=a*)b")']).map(
        lambda t: {"kind": "bad-regex", "lang": "pattern", "text": t, "expect": None})
    # very deep, narrow definitions (far beyond what a recursive interpreter survives)
    deep_pat = st.tuples(st.sampled_from([60, 130, 150, 400, 1500]), st.sampled_from(["child", "items"])).map(
        lambda t: {"kind": "deep", "lang": "pattern", "expect": None,
                   "text": ("(Mixed @child=" * t[0] + "(*)" + ")" * t[0]) if t[1] == "child" else
                           ("(Mixed @items=[" * t[0] + "(*)" + "])" * t[0])})
    deep_xp = st.one_of(
        st.sampled_from([200, 1200, 4000]).map(
            lambda n: {"kind": "deep", "lang": "xpath", "expect": None, "text": "/Mixed" * n + "/LeafA"}),
        # an index of thousands of digits (leading zeros or not): a usable xpath or the definition error
        st.tuples(st.sampled_from([40, 4300, 4301, 9000]), st.sampled_from(["0", "7"])).map(
            lambda t: {"kind": "huge-index", "lang": "xpath", "expect": None,
                       "text": "/Mixed/@items[" + t[1] * t[0] + "1]LeafA"}))
    ill_xp = st.sampled_from([
        ("unknown class", "//Nope"), ("unknown class", "/Mixed/@items[0]Nope"), ("non-node class", "//CodeOrigin"), ("non-node class", "//AwareASTNode"), ("non-node class", "/Mixed/@items AwareASTNode"),
        ("non-node class", "/Source"), ("non-node class", "//Mixed/MultiOrigin"), ("syntax", "//"), ("syntax", "/"),
        ("syntax", ""), ("syntax", "/@"), ("syntax", "/Mixed/@items[a]LeafA"), ("syntax", "/Mixed[1"), ("syntax", "Mixed//"),
        ("syntax", "/@items[1]"), ("syntax", "/Mixed/@items[-1]LeafA"), ("syntax", "/Mixed/@items[*]LeafA"),
    ]).map(lambda t: {"kind": "illformed", "lang": "xpath", "text": t[1], "expect": "reject", "why": t[0]})
    ws_pairs = st.sampled_from([
        ('(Strs @a="a b")', '(Strs @a="a  b")'), ('(Strs @a="a  b")', '(Strs @a="a b")'), ('(Strs @a="a b")', '(Strs @a="a\tb")'),
        ('(Strs @a="x y$")', '(Strs @a="x  y$")'), ('(* @a="a b" @b="a b")', '(* @a="a b" @b="a  b")'),
        ('(Strs @a = "a b")', '(Strs @a = "a  b")'), ('(Mixed @items=[(Strs @a="x y") *])', '(Mixed @items=[(Strs @a="x  y") *])'),
        ('(Strs @a=" a")', '(Strs @a="  a")'), ('(Strs @a="a ")', '(Strs @a="a  ")'), ('(Strs @a="a b")', '(Strs @a="a b ")'),
    ]).map(lambda t: {"kind": "ws-in-string", "lang": "pattern", "before": t[0], "text": t[1], "expect": "accept"})
    xp_ws_pairs = st.sampled_from([
        ("/Mixed/@items LeafA", "/Mixed/@itemsLeafA"), ("/Mixed/@itemsLeafA", "/Mixed/@items LeafA"),
        ("//@child LeafA", "//@childLeafA"), ("//@items Strs", "//@itemsStrs"), ("//@itemsStrs", "//@items Strs"),
        ("/Mixed/@items[0] LeafA", "/Mixed/@items[0]LeafA"), ("//Mixed/LeafA", "// Mixed/LeafA"), (" /Mixed", "/Mixed"),
        ("/Mixed", " /Mixed"), ("//@one LeafA", "//@oneLeafA"),
    ]).map(lambda t: {"kind": "ws-between-names", "lang": "xpath", "before": t[0], "text": t[1], "expect": None})
    rnd_pat = st.lists(st.sampled_from(PAT_ALPHABET), max_size=12).map(
        lambda ts: {"kind": "random", "lang": "pattern", "text": "".join(ts), "expect": None})
    rnd_xp = st.lists(st.sampled_from(XP_ALPHABET), max_size=10).map(
        lambda ts: {"kind": "random", "lang": "xpath", "text": "".join(ts), "expect": None})
    uni = st.tuples(st.text(max_size=20).filter(lambda s: all(not 0xD800 <= ord(c) <= 0xDFFF for c in s)),
                    st.sampled_from(["pattern", "xpath"])).map(
        lambda t: {"kind": "unicode", "lang": t[1], "text": t[0], "expect": None})
    return st.one_of(pat, pat, pat, pat, xp, xp, xp, ill_pat, ill_xp, regex_bad, rnd_pat, rnd_xp, uni,
                     st.one_of(deep_pat, deep_pat, deep_xp, regex_bad, ws_pairs, ws_pairs, xp_ws_pairs, xp_ws_pairs))


# ------------------------------------------------------------------------------ atheris


def run_fuzz(ctx: Ctx, runner: Any, part: Part) -> None:
    """thorough tier: one coverage-guided campaign per shard (empty corpus on even shards, the
    repository-test seeds on odd shards); a crash artifact is replayed through check_text."""
    if not ctx.thorough:
        return
    deps = os.path.join(VERIF_DIR, ".deps")
    if not os.path.isdir(os.path.join(deps, "atheris")):
        print("note: atheris not installed (.deps); coverage-guided part skipped", file=sys.stderr)
        return
    work = os.path.join(VERIF_DIR, ".work", f"fuzz-{os.getpid()}-{ctx.shard}")
    corpus = os.path.join(work, "corpus")
    os.makedirs(corpus, exist_ok=True)
    if ctx.shard % 2:
        seeds = os.path.join(VERIF_DIR, "pbt", "corpus")
        for fn in os.listdir(seeds) if os.path.isdir(seeds) else []:
            with open(os.path.join(seeds, fn), "rb") as f, open(os.path.join(corpus, fn), "wb") as g:
                g.write(f.read())
    runs = int(os.environ.get("VERIF_FUZZ_RUNS", "150000"))
    env = dict(os.environ, PYTHONPATH=deps + os.pathsep + VERIF_DIR, VERIF_FUZZ_LANG="pattern" if ctx.shard % 4 < 2 else "xpath")
    cmd = ["/venv/bin/python", os.path.join(VERIF_DIR, "pbt", "fuzz_c17.py"), corpus, f"-runs={runs}",
           f"-seed={ctx.seed * 100 + ctx.shard + 1}", f"-artifact_prefix={work}/", "-max_len=96", "-timeout=30"]
    try:
        r = subprocess.run(cmd, env=env, cwd=work, capture_output=True, text=True, timeout=3600)
    except subprocess.TimeoutExpired:
        print("note: fuzz campaign hit its wall-clock cap (inconclusive, not a violation)", file=sys.stderr)
        return
    import glob
    import re as _re
    import shutil

    m = _re.findall(r"#(\d+)\s+(?:DONE|pulse|REDUCE|NEW|INITED)", r.stderr)
    execs = max((int(x) for x in m), default=0)
    lab_data = {"kind": "fuzz-summary", "lang": env["VERIF_FUZZ_LANG"], "text": "", "expect": None, "execs": execs}
    runner.stats.labels[f"{part.name}:#fuzz-executions"] += execs
    runner.stats.labels[f"{part.name}:fuzz-campaigns"] += 1
    arts = glob.glob(os.path.join(work, "crash-*"))
    try:
        for a in arts[:1]:
            with open(a, "rb") as f:
                text = f.read().decode("utf-8", "replace")
            data = {"kind": "fuzz", "lang": env["VERIF_FUZZ_LANG"], "text": text, "expect": None}
            runner.run_case(part, data)
            # the target crashed but the oracle passes here: report as harness problem
            raise HarnessError(f"atheris crash does not reproduce through check_text: {text!r:.200}\n{r.stderr[-1500:]}")
    finally:
        shutil.rmtree(work, ignore_errors=True)
    del lab_data


def check_late_class(data: dict, lab: Labels) -> None:
    """class names are resolved when a text is compiled: a name that was unknown at an earlier
    compilation (and rightly rejected) must be accepted once the class exists. (Re-defining a class
    under the same name is not exercised: the pattern cache then legitimately returns the matcher
    bound to the first class object - outside the property's quantifier, see DESIGN.md 10.3.)"""
    import sys
    import types

    import pyoak.serialize as S
    from pyoak.match.pattern import NodeMatcher, validate_pattern
    from pyoak.match.xpath import ASTXpath

    name = f"LateCls{data['k'] % 5}"
    S.TYPES.pop(name, None)
    texts = {"xpath": [f"//{name}", f"/Mixed/@items[0]{name}"], "pattern": [f"({name})", f"(Mixed @items=[({name} @v -> val) *])"]}
    if data["probe_first"]:
        for t in texts["xpath"]:
            require(compile_xpath(t) is None, "unknown-class-accepted", t)
        for t in texts["pattern"]:
            ok, _ = compile_pattern(t)
            require(not ok, "unknown-class-accepted", t)
        lab.tag("rejected-before-definition")
    mod_name = "pbt_late_mod"
    for generation in range(data["generations"]):
        mod = types.ModuleType(mod_name)
        mod.__file__ = f"<{mod_name}>"
        sys.modules[mod_name] = mod
        src = ("from dataclasses import dataclass\nfrom pyoak.node import ASTNode\n"
               f"@dataclass(frozen=True)\nclass {name}(ASTNode):\n    v: int = 0\n")
        exec(compile(src, mod.__file__, "exec", dont_inherit=True), mod.__dict__)
        cls = mod.__dict__[name]
        inst = cls(v=generation)
        tree = M.cls("Mixed")(items=(inst, M.cls("LeafA")(v=1)))
        for t in texts["xpath"]:
            x = compile_xpath(t)
            require(x is not None, "existing-class-rejected", f"generation {generation}: {t}")
            found = list(x.findall(tree))
            require(len(found) == 1 and found[0] is inst, "xpath-bound-to-stale-class", f"generation {generation}: {t} found {found!r:.100}")
            require(x.match(tree, inst) is True, "xpath-bound-to-stale-class", f"generation {generation}: match {t}")
        if generation > 0:
            # the class statement was executed again under the same name: an xpath text is resolved
            # every time it is used, so it follows the name (a *pattern* text compiled before stays
            # bound to the class it was compiled for - the cache is part of its contract, not asserted)
            lab.tag(f"generation{generation}-xpath-only")
            continue
        ok, m = compile_pattern(texts["pattern"][0])
        require(ok and m.match(inst)[0] is True, "pattern-bound-to-stale-class", f"generation {generation}: {texts['pattern'][0]}")
        ok, m = compile_pattern(texts["pattern"][1])
        res = m.match(tree) if ok else (False, {})
        require(ok and res[0] is True and res[1].get("val") == generation, "pattern-bound-to-stale-class",
                f"generation {generation}: {texts['pattern'][1]} -> {res!r:.100}")
        require(validate_pattern(texts["pattern"][0])[0] is True, "existing-class-rejected", texts["pattern"][0])
        lab.tag(f"generation{generation}")
        del NodeMatcher, ASTXpath
        from pyoak.match.pattern import NodeMatcher  # noqa: F401
        from pyoak.match.xpath import ASTXpath  # noqa: F401
    S.TYPES.pop(name, None)
    sys.modules.pop(mod_name, None)
    lab.nontrivial = True
    lab.sample_class = "late-class"


def st_late(ctx: Ctx):
    return st.fixed_dictionaries({"k": st.integers(0, 4), "probe_first": st.booleans(), "generations": st.sampled_from([1, 2, 3])})


PARTS = [
    Part("texts", check_text, strategy=st_texts, quick=16000, thorough=320000),
    Part("late_class", check_late_class, strategy=st_late, quick=160, thorough=1600),
    Part("fuzz", check_text, custom=run_fuzz),
]
