"""C15 — origin algebra: interval laws, hull merging, flat multi-origins, exact slices."""
from __future__ import annotations

from typing import Any

from hypothesis import strategies as st

from pbt import origins as og
from pbt.runtime import Ctx, Labels, Part, Violation, require

PROP = "C15"
RULE = (
    "grid: every ordered pair (a,b) of code ranges lo<=hi on the index grid 0..N (N=5 quick, 7 "
    "thorough) is one case and is combined with every third range c for the triple laws "
    "(exhaustive; non-trivial = a and b are distinct ranges); illformed: every (index,line,"
    "column) in a small box and every (start,end) point pair, rejected iff ill-formed "
    "(exhaustive); origins: Hypothesis tuples of 1-4 origins of every kind over 4 sources, "
    "checked for +, merge_origins, concat_origins, source, fqn, get_raw against a flat-list "
    "model (non-trivial = >=2 kinds or >=2 sources among the operands); get_raw: random texts "
    "x ranges (non-trivial = non-empty proper slice). distinct = distinct canonical JSON specs."
)
ASSUMPTIONS = [
    "grid / origins parts: code points are built so that (line, column) is a function of the index; the 'labelled' part drops that assumption and asserts index-only ordering (no equality claims)",
    "multi-origins are the ones the library builds (flat lists); hand-nested ones are not generated",
    "GeneratedCodeOrigin is treated as a code origin over the empty range 0-0 (it subclasses CodeOrigin)",
]
FLOORS = {"grid:NONTRIVIAL": 0.9, "origins:NONTRIVIAL": 0.5}


def _ranges(n: int) -> list[tuple[int, int]]:
    return [(lo, hi) for lo in range(n + 1) for hi in range(lo, n + 1)]


# ----------------------------------------------------------------------------- grid


def enum_grid(ctx: Ctx):
    n = ctx.pick(5, 7)
    rs = _ranges(n)
    for a in rs:
        for b in rs:
            yield {"n": n, "a": list(a), "b": list(b)}


def _mk(r) -> Any:
    return og.make_range(og.TEXTS[0], r[0], r[1])


def _eq_range(x: Any, r: tuple[int, int]) -> bool:
    return (x.start.index, x.end.index) == tuple(r)


def check_grid(data: dict, lab: Labels) -> None:
    from pyoak.origin import CodeRange

    n = data["n"]
    a, b = tuple(data["a"]), tuple(data["b"])
    A, B = _mk(a), _mk(b)
    lab.nontrivial = a != b
    lab.tag_if(a[1] == b[0] or b[1] == a[0], "touching")
    # model
    contains = lambda x, y: x[0] <= y[0] and y[1] <= x[1]  # y in x  # noqa: E731
    overlaps = lambda x, y: x[1] >= y[0] and x[0] <= y[1]  # noqa: E731
    hull = lambda x, y: (min(x[0], y[0]), max(x[1], y[1]))  # noqa: E731

    require((A in B) == contains(b, a), "contains", f"{a} in {b} -> {A in B}")
    require((B in A) == contains(a, b), "contains", f"{b} in {a} -> {B in A}")
    require(A in A, "contains-reflexive", a)
    if (A in B) and (B in A):
        require(A == B and a == b, "contains-antisymmetric", (a, b))
    require((A == B) == (a == b), "range-equality", (a, b))
    require(A.overlaps(B) == overlaps(a, b), "overlaps", f"{a} {b} -> {A.overlaps(B)}")
    require(A.overlaps(B) == B.overlaps(A), "overlaps-symmetric", (a, b))
    require((A < B) == (a[1] < b[0]), "lt", f"{a} < {b} -> {A < B}")
    require((B < A) == (b[1] < a[0]), "lt", f"{b} < {a} -> {B < A}")
    H = A + B
    require(isinstance(H, CodeRange) and _eq_range(H, hull(a, b)), "hull", f"{a}+{b} -> {H.fqn}")
    require(A in H and B in H, "hull-contains-operands", (a, b))
    require(H == B + A, "hull-commutative", (a, b))
    require(A + A == A, "hull-idempotent", a)
    require(H.fqn == f"{hull(a, b)[0]}-{hull(a, b)[1]}", "range-fqn", H.fqn)
    # points
    require((A.start < B.start) == (a[0] < b[0]), "point-lt", (a, b))
    require((A.start <= B.start) == (a[0] <= b[0]), "point-le", (a, b))
    require((A.end > B.end) == (a[1] > b[1]), "point-gt", (a, b))
    require((A.end >= B.end) == (a[1] >= b[1]), "point-ge", (a, b))
    require((A.start == B.start) == (a[0] == b[0]), "point-eq", (a, b))
    k = 0
    for c in _ranges(n):
        C = _mk(c)
        k += 1
        if (A in B) and (B in C):
            require(A in C, "contains-transitive", (a, b, c))
        require((A + B) + C == A + (B + C), "hull-associative", (a, b, c))
        if contains(c, a) and contains(c, b):
            require(H in C, "hull-least", (a, b, c))
    lab.count("triples", k)


# ------------------------------------------------------------------------- ill-formed


def enum_illformed(ctx: Ctx):
    for idx in range(-2, 3):
        for line in range(-1, 3):
            for col in range(-2, 3):
                yield {"kind": "point", "v": [idx, line, col]}
    n = ctx.pick(5, 7)
    for s in range(n + 1):
        for e in range(n + 1):
            yield {"kind": "range", "v": [s, e]}


def check_illformed(data: dict, lab: Labels) -> None:
    from pyoak.origin import CodePoint, CodeRange

    if data["kind"] == "point":
        idx, line, col = data["v"]
        bad = idx < 0 or line < 1 or col < 0
        lab.nontrivial = bad
        try:
            p = CodePoint(index=idx, line=line, column=col)
        except ValueError:
            require(bad, "point-rejected-but-wellformed", data["v"])
            return
        require(not bad, "illformed-point-accepted", data["v"])
        require((p.index, p.line, p.column) == (idx, line, col), "point-fields", data["v"])
    else:
        s, e = data["v"]
        bad = s > e
        lab.nontrivial = bad
        S = CodePoint(*og.point_of(og.TEXTS[0], s))
        E = CodePoint(*og.point_of(og.TEXTS[0], e))
        try:
            r = CodeRange(start=S, end=E)
        except ValueError:
            require(bad, "range-rejected-but-wellformed", data["v"])
            return
        require(not bad, "illformed-range-accepted", data["v"])
        require(r.start is S and r.end is E, "range-fields", data["v"])


# ------------------------------------------------------- points with independent labels


def enum_labelled(ctx: Ctx):
    """code points whose line / column labels are NOT a function of the index (two producers may
    label the same index differently): every comparison must still follow the index alone."""
    pts = [(i, ln, col) for i in range(ctx.pick(3, 4)) for ln in (1, 2) for col in (0, 5)]
    for p in pts:
        for q in pts:
            yield {"p": list(p), "q": list(q)}


def check_labelled(data: dict, lab: Labels) -> None:
    from pyoak.origin import CodeOrigin, CodePoint, CodeRange, MemoryTextSource

    p, q = data["p"], data["q"]
    P, Q = CodePoint(*p), CodePoint(*q)
    lab.nontrivial = p[0] == q[0] and p[1:] != q[1:]
    require((P < Q) == (p[0] < q[0]), "point-lt-by-index", (p, q))
    require((P <= Q) == (p[0] <= q[0]), "point-le-by-index", (p, q))
    require((P > Q) == (p[0] > q[0]), "point-gt-by-index", (p, q))
    require((P >= Q) == (p[0] >= q[0]), "point-ge-by-index", (p, q))
    try:
        r = CodeRange(start=P, end=Q)
        require(p[0] <= q[0], "illformed-range-accepted", (p, q))
    except ValueError:
        require(p[0] > q[0], "range-rejected-but-wellformed", (p, q))
        return
    # ranges [p, q] against ranges built from the canonical labelling of the same indexes
    src = MemoryTextSource("x" * 10, source_uri="mem://lab")
    for lo in range(4):
        for hi in range(lo, 4):
            other = CodeRange(start=CodePoint(lo, 1, lo), end=CodePoint(hi, 1, hi))
            a, b = (p[0], q[0]), (lo, hi)
            require((other in r) == (a[0] <= b[0] and b[1] <= a[1]), "contains-by-index", (p, q, lo, hi))
            require((r in other) == (b[0] <= a[0] and a[1] <= b[1]), "contains-by-index", (p, q, lo, hi))
            ov = a[1] >= b[0] and a[0] <= b[1]
            require(r.overlaps(other) == ov and other.overlaps(r) == ov, "overlaps-by-index-symmetric", (p, q, lo, hi))
            require((r < other) == (a[1] < b[0]) and (other < r) == (b[1] < a[0]), "lt-by-index", (p, q, lo, hi))
            for h in (r + other, other + r):
                require((h.start.index, h.end.index) == (min(a[0], b[0]), max(a[1], b[1])), "hull-by-index", (p, q, lo, hi))
            s1 = CodeOrigin(source=src, position=r) + CodeOrigin(source=src, position=other)
            s2 = CodeOrigin(source=src, position=other) + CodeOrigin(source=src, position=r)
            for s_ in (s1, s2):
                require(isinstance(s_, CodeOrigin) == ov, "code-origin-merge-by-index", (p, q, lo, hi))
    lab.count("range-pairs", 10)


# ---------------------------------------------------------------------------- origins


def st_origins(ctx: Ctx):
    return st.fixed_dictionaries(
        {
            "ops": st.lists(og.st_origin(max_index=12), min_size=1, max_size=4),
            "fresh": st.booleans(),
            "clear_registry": st.sampled_from([False, False, True]),
            "tuple_backed": st.sampled_from([False, False, True]),
            "look": st.sampled_from([0, 0, 0, 255, 170, 85]),
        }
    )


def _members(spec: list) -> list[list]:
    """flat list of non-`no` members (multi spliced)"""
    if spec[0] == "no":
        return []
    if spec[0] == "multi":
        return [m for m in spec[1]]
    return [spec]


def _is_code(spec: list) -> bool:
    return spec[0] in ("code", "gen")


def _code_range(spec: list) -> tuple[int, int]:
    return (spec[2], spec[3]) if spec[0] == "code" else (0, 0)


def model_merge(specs: list[list]) -> list:
    """merge_origins model on specs. Returns a spec, with ["same", i] meaning the operand itself."""
    if len(specs) == 1:
        return ["same", 0]
    mem: list[tuple[list, tuple]] = []
    for i, s in enumerate(specs):
        if s[0] == "multi":
            mem.extend((m, ("member", i, j)) for j, m in enumerate(s[1]))
        elif s[0] != "no":
            mem.append((s, ("same", i)))
    if not mem:
        return ["no"]
    if len(mem) == 1:
        return ["one", mem[0][0], mem[0][1]]
    return ["multi", [m for m, _ in mem]]


def model_add(a: list, b: list) -> list:
    if _is_code(a) and _is_code(b) and a[1] == b[1]:
        ra, rb = _code_range(a), _code_range(b)
        if ra[1] >= rb[0] and ra[0] <= rb[1]:
            return ["code", a[1], min(ra[0], rb[0]), max(ra[1], rb[1])]
    return model_merge([a, b])


def _resolve(model: list, operands_specs: list[list]) -> list:
    """turn a model result into a plain spec"""
    if model[0] == "same":
        return operands_specs[model[1]]
    if model[0] == "one":
        return model[1]
    return model


def _src_fqn(i: int) -> str:
    return f"mem://s{i}" if i < 3 else ("urn:plain:s3" if i == 3 else "mem://s0")


def _pos_fqn(spec: list) -> str:
    if spec[0] == "code":
        return f"{spec[2]}-{spec[3]}"
    if spec[0] == "gen":
        return "0-0"
    if spec[0] == "xml":
        return spec[2]
    if spec[0] == "whole":
        return "(entire source)"
    raise AssertionError(spec)


def model_fqn(spec: list) -> str:
    if spec[0] == "no":
        return "NoOrigin"
    if spec[0] == "multi":
        srcs = [m[1] for m in spec[1]]
        if all(s == srcs[0] for s in srcs):
            sf = _src_fqn(srcs[0])
        else:
            sf = "SourceSet(" + "||".join(_src_fqn(s) for s in srcs) + ")"
        pf = "PositionSet(" + "||".join(_pos_fqn(m) for m in spec[1]) + ")"
        return f"{sf}::{pf}"
    return f"{_src_fqn(spec[1])}::{_pos_fqn(spec)}"


def _check_result(res: Any, expect: list, sources: list, clause: str, ctx: Any) -> None:
    from pyoak import origin as O

    got = og.origin_spec_of(res, sources)
    # generated + generated of one source collapses to a plain code origin 0-0 in the model
    require(got == expect, clause, f"{ctx}: expected {expect}, got {got}")
    if expect[0] == "no":
        require(res is O.NO_ORIGIN, clause + "-singleton", ctx)
    if expect[0] == "multi":
        require(isinstance(res, O.MultiOrigin), clause + "-type", ctx)
        for m in res.origins:
            require(not isinstance(m, (O.MultiOrigin, O.NoOrigin)), "multi-flat", f"{ctx}: {got}")
        srcs = [m[1] for m in expect[1]]
        if all(s == srcs[0] for s in srcs):
            require(res.source == sources[srcs[0]] and not isinstance(res.source, O.SourceSet),
                    "multi-common-source", f"{ctx}: {res.source}")
        else:
            require(isinstance(res.source, O.SourceSet)
                    and list(res.source.sources) == [sources[s] for s in srcs],
                    "multi-source-set-order", f"{ctx}: {res.source}")
        require(isinstance(res.position, O.PositionSet)
                and [p.fqn for p in res.position.positions] == [_pos_fqn(m) for m in expect[1]],
                "multi-position-set", ctx)
    require(res.fqn == model_fqn(expect), "fqn", f"{ctx}: {res.fqn!r} != {model_fqn(expect)!r}")
    if expect[0] == "code":
        require(type(res) is O.CodeOrigin or expect == got, clause + "-type", ctx)
        text = og.source_text(expect[1])
        if text is not None:
            require(res.get_raw() == text[expect[2]:expect[3]], "hull-get_raw",
                    f"{ctx}: {res.get_raw()!r}")


def check_origins(data: dict, lab: Labels) -> None:
    from pyoak.origin import concat_origins, merge_origins

    specs = data["ops"]
    sources = og.make_sources()
    fresh = bool(data.get("fresh"))
    look = data.get("look", 0)
    if look:
        # a fifth source that is not equal to source 0 but shares its URI (another source type): members
        # drawn over source 0 are moved to it where the mask says so
        from pyoak.origin import Source

        sources.append(Source(source_uri="mem://s0", source_type="lookalike"))
        fresh = False
        counter = [0]

        def move(m: list) -> list:
            if m[0] in ("gen", "whole", "xml") and m[1] == 0:
                counter[0] += 1
                if look >> (counter[0] % 8) & 1:
                    return [m[0], 4, *m[2:]]
            return m

        specs = [["multi", [move(m) for m in sp[1]]] if sp[0] == "multi" else move(sp) for sp in specs]
        lab.tag_if(any(m[0] != "no" and m[0] != "multi" and m[1] == 4 for sp in specs for m in (_members(sp) or [])),
                   "source-sharing-the-uri-of-another")
    lab.tag_if(fresh, "distinct-equal-source-objects")
    objs = [og.build_origin(s, sources, fresh) for s in specs]
    if data.get("tuple_backed"):
        # a multi-origin a user built with a tuple of members (the field is a Sequence): same value
        from pyoak.origin import MultiOrigin

        objs = [MultiOrigin(origins=tuple(o.origins)) if isinstance(o, MultiOrigin) else o for o in objs]
        lab.tag_if(any(isinstance(o, MultiOrigin) for o in objs), "tuple-backed-multi-origin-operand")
    if data.get("clear_registry"):
        # the algebra must not depend on the source registry (it is only a serialization aid)
        from pyoak.origin import Source

        Source.clear_registry()
        lab.tag("source-registry-cleared")
    kinds = {m[0] for s in specs for m in (_members(s) or [["no"]])}
    srcs = {m[1] for s in specs for m in _members(s)}
    lab.nontrivial = len(specs) >= 2 and (len(kinds) >= 2 or len(srcs) >= 2)
    lab.tag(f"n{len(specs)}")
    for s in specs:
        lab.tag(s[0])

    # merge_origins over all operands
    mm = model_merge(specs)
    res = merge_origins(*objs)
    if mm[0] == "same":
        require(res is objs[mm[1]], "merge-single-operand-itself", specs)
    else:
        if mm[0] == "one":
            kind, i, *rest = mm[2]
            target = objs[i] if kind == "same" else objs[i].origins[rest[0]]
            require(res is target or res == target, "merge-one-remains", specs)
            if kind == "same":
                require(res is target, "merge-one-remains-itself", specs)
            lab.tag("one-remains")
        _check_result(res, _resolve(mm, specs), sources, "merge", specs)
        lab.tag("merge-" + mm[0])

    # pairwise + on the first two operands, then concat = left fold
    if len(specs) >= 2:
        for (i, j) in ((0, 1), (1, 0)):
            ma = model_add(specs[i], specs[j])
            r = objs[i] + objs[j]
            if ma[0] == "same":
                raise AssertionError("unreachable")
            exp = _resolve(ma, [specs[i], specs[j]])
            _check_result(r, exp, sources, "add", [specs[i], specs[j]])
            if ma[0] == "code":
                lab.tag("hull-merge")
            if ma[0] == "one":
                kind, k, *rest = ma[2]
                if kind == "same":
                    require(r is (objs[i], objs[j])[k], "add-one-remains-itself", [specs[i], specs[j]])
        acc_spec = specs[0]
        for s in specs[1:]:
            acc_spec = _resolve(model_add(acc_spec, s), [acc_spec, s])
        r = concat_origins(*objs)
        _check_result(r, acc_spec, sources, "concat", specs)
    else:
        require(concat_origins(objs[0]) is objs[0], "concat-single", specs)
    # get_raw of plain code origins
    for s, o in zip(specs, objs):
        if s[0] == "code":
            require(o.get_raw() == og.TEXTS[s[1]][s[2]:s[3]], "get_raw", s)
        if s[0] in ("gen", "xml", "no", "whole"):
            require(o.get_raw() is None, "get_raw-none", s)
        require(o.fqn == model_fqn(s), "fqn-operand", f"{s}: {o.fqn!r}")


# ---------------------------------------------------------------------------- get_raw


def st_get_raw(ctx: Ctx):
    alphabet = st.one_of(
        st.sampled_from(list("ab \n\t=()")), st.characters(min_codepoint=0x80, max_codepoint=0x1F9FF,
                                                          blacklist_categories=("Cs",))
    )
    text = st.one_of(st.lists(alphabet, min_size=0, max_size=60).map("".join),
                     st.lists(st.sampled_from(list("ab \n\t=()x1")), min_size=1, max_size=60).map("".join))

    def with_range(t: str):
        return st.tuples(st.integers(0, len(t)), st.integers(0, len(t)), st.sampled_from([0, 0, 0, 1, 2, 3, 4])).map(
            lambda p: {"text": t, "lo": min(p[:2]), "hi": max(p[:2]), "file": p[2]}
        )

    return text.flatmap(with_range)


def check_get_raw(data: dict, lab: Labels) -> None:
    from pyoak.origin import CodeOrigin, CodePoint, CodeRange, MemoryTextSource

    text, lo, hi = data["text"], data["lo"], data["hi"]
    lab.nontrivial = lo < hi and (lo > 0 or hi < len(text))
    lab.tag_if("\n" in text[lo:hi], "multiline")
    lab.tag_if(any(ord(c) > 0xFFFF for c in text), "astral")
    src = MemoryTextSource(text, source_uri="mem://raw")
    o = CodeOrigin(
        source=src,
        position=CodeRange(start=CodePoint(*og.point_of(text, lo)), end=CodePoint(*og.point_of(text, hi))),
    )
    require(o.get_raw() == text[lo:hi], "get_raw-slice", f"{o.get_raw()!r} != {text[lo:hi]!r}")
    # adding a touching/overlapping piece yields the hull slice
    mid = (lo + hi) // 2
    left = CodeOrigin(source=src, position=CodeRange(start=CodePoint(*og.point_of(text, lo)),
                                                     end=CodePoint(*og.point_of(text, mid))))
    right = CodeOrigin(source=src, position=CodeRange(start=CodePoint(*og.point_of(text, mid)),
                                                      end=CodePoint(*og.point_of(text, hi))))
    for s in (left + right, right + left):
        require(type(s) is CodeOrigin and s.get_raw() == text[lo:hi], "hull-get_raw",
                f"{s.get_raw()!r} != {text[lo:hi]!r}")
    require(src.get_raw() == text, "source-raw", "")
    if data.get("file") == 4:
        # a text file that is not UTF-8 / has its first non-ASCII character far from the start: the source text is
        # what the file says in its encoding (combinations the library's encoding detection gets right on the pinned tree)
        import tempfile
        from pathlib import Path

        from pyoak.origin import TextFileSource

        enc, tail = [("latin-1", "café über naïve façade"), ("cp1252", "déjà vu été"), ("utf-8", "café über 中文")][(lo + hi) % 3]
        n = [10, 1100, 5000][(lo * 2 + hi) % 3]
        ftext = ("line of plain ascii text 0123456789\n" * (n // 36 + 1))[:n] + tail + "\nend\n"
        a, z = sorted(((lo * 131) % (len(ftext) + 1), (hi * 197 + len(ftext) - 30) % (len(ftext) + 1)))
        with tempfile.TemporaryDirectory(prefix="pbt-c15-") as d:
            fp = Path(d) / "unit.txt"
            fp.write_bytes(ftext.encode(enc))
            fs = TextFileSource(fp)
            fo = CodeOrigin(source=fs, position=CodeRange(start=CodePoint(*og.point_of(ftext, a)), end=CodePoint(*og.point_of(ftext, z))))
            require(fs.get_raw() == ftext, "source-raw", f"{enc} file with {n} ASCII characters first: {fs.get_raw()!r:.60}")
            require(fo.get_raw() == ftext[a:z], "get_raw-slice", f"{enc} file, {a}-{z}: {fo.get_raw()!r:.60}")
        lab.tag(f"encoded-text-file-{enc}-{n}")
        return
    if data.get("file") and text.isascii() and "\r" not in text and text:
        # the same slice through file-backed sources (text file, plain file and zip member: bytes)
        import tempfile
        import zipfile
        from pathlib import Path

        from pyoak.origin import FileSource, TextFileSource, ZippedFileSource

        pos = CodeRange(start=CodePoint(*og.point_of(text, lo)), end=CodePoint(*og.point_of(text, hi)))
        with tempfile.TemporaryDirectory(prefix="pbt-c15-") as d:
            fp = Path(d) / "unit.txt"
            fp.write_bytes(text.encode("ascii"))
            zp = Path(d) / "units.zip"
            with zipfile.ZipFile(zp, "w") as zf:
                zf.writestr("in/unit.txt", text)
            how = data["file"] % 3
            if how == 0:
                fs: Any = TextFileSource(fp)
                want: Any = text[lo:hi]
                whole: Any = text
            elif how == 1:
                fs = FileSource(fp)
                want, whole = None, text.encode()  # (a code chunk is text: byte sources have none)
            else:
                fs = ZippedFileSource(zp, in_zip_path=Path("in/unit.txt"))
                want, whole = None, text.encode()
            fo = CodeOrigin(source=fs, position=pos)
            got = fo.get_raw()
            require(fs.get_raw() == whole, "source-raw", f"{type(fs).__name__}: {fs.get_raw()!r:.80}")
            require(got == want, "get_raw-slice", f"{type(fs).__name__}: {got!r:.80} != {want!r:.80}")
            lab.tag("file-backed-" + type(fs).__name__)


PARTS = [
    Part("grid", check_grid, enumerate=enum_grid,
         exhaustive_note="all ordered pairs of ranges on 0..N, each with every third range"),
    Part("illformed", check_illformed, enumerate=enum_illformed,
         exhaustive_note="box of (index,line,column) and all (start,end) index pairs"),
    Part("labelled", check_labelled, enumerate=enum_labelled,
         exhaustive_note="all pairs of points over index x line x column labels, each against all canonical ranges"),
    Part("origins", check_origins, strategy=st_origins, quick=24000, thorough=320000),
    Part("get_raw", check_get_raw, strategy=st_get_raw, quick=8000, thorough=96000),
]
