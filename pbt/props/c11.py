"""C11 — every field annotation is soundly classified as child, property, or rejected."""
from __future__ import annotations

from typing import Any

from hypothesis import strategies as st

from pbt import classfactory as CF
from pbt.runtime import Ctx, Labels, Part, from_library, require, short_tb

PROP = "C11"
RULE = (
    "class definitions generated as module source and exec-ed: chains of 1-3 node classes with 1-3 "
    "fields each (inherited and overridden fields included), annotations drawn from the type "
    "grammar {scalars, None, Any, Literal (incl. a string naming a node class), Enum, NewType, "
    "Optional / Union in both spellings, tuple (bare, fixed, variadic), frozenset, Sequence, "
    "Mapping, list / dict / set, node classes and forward references to a class defined later} "
    "nested to depth 3; every case is emitted twice, with plain annotations (forward references "
    "as string literals) and with `from __future__ import annotations`. Oracle: a reference "
    "classification per effective field (child / property / rejected); a class with a rejected "
    "field must raise InvalidFieldAnnotations naming exactly those fields at definition or at first "
    "use; otherwise get_child_fields / get_property_fields hold exactly the expected names, each "
    "field in exactly one table, instantiation works, and both emissions agree. Any other exception "
    "is a violation. non-trivial = depth >= 2, or node and non-node types mixed, or a forward "
    "reference / NewType involved."
)
ASSUMPTIONS = [
    "reference classification in pbt/classfactory.py (NewTypes looked through at every level)",
    "annotation expressions Python itself refuses to evaluate are discarded (counted), they are not pyoak's verdict",
    "fields get shape-appropriate defaults (() for tuple-shaped, None otherwise) so that classes can be instantiated",
]
FLOORS = {"chains:expect-rejected": 0.2, "chains:forward-ref": 0.03, "chains:newtype": 0.1, "chains:override": 0.1}


def effective_fields(classes: list[dict], k: int) -> list[dict]:
    """fields of class k incl. inherited ones, overrides keep the original position."""
    chain = []
    cur: Any = classes[k]
    while cur is not None:
        chain.append(cur)
        cur = next((c for c in classes if c["name"] == cur["base"]), None) if cur["base"] else None
    out: list[dict] = []
    for c in reversed(chain):
        for f in c["fields"]:
            for i, g in enumerate(out):
                if g["name"] == f["name"]:
                    out[i] = f
                    break
            else:
                out.append(f)
    return out


def observe(classes: list[dict], postponed: bool, lab: Labels, decoy: bool = False) -> list[Any]:
    """per class: ("undefined",) | ("rejected", names, when) | ("accepted", child names, prop names)"""
    from pyoak.error import InvalidFieldAnnotations

    if decoy:
        # the same module first held other classes of the same names (a re-run notebook cell, a class
        # factory called again): every field that is a child now was a property then and vice versa;
        # the earlier classes were used before they were replaced
        uid = CF.new_uid()
        flipped = [{**c, "fields": [{"name": f["name"], "ann": ({"k": "scalar", "n": "int"} if CF.classify_ref(f["ann"]) == "child"
                                                                  else {"k": "node", "n": "NodeA"})} for f in c["fields"]]}
                   for c in classes]
        dsrc, _ = CF.emit_module(flipped, postponed, uid)
        mod = CF.Module(dsrc, uid)
        if mod.error is None:
            for c in classes:
                try:
                    old = mod.get(c["name"])
                    old.get_child_fields()
                    list(old.get_property_fields(False, False, False))
                    old()
                except Exception:  # noqa: BLE001
                    pass
            lab.tag("redefined-in-the-same-module")
        for c in classes:
            mod.mod.__dict__.pop(f"{c['name']}_{uid}", None)
        src, _ = CF.emit_module(classes, postponed, uid)
        mod.src, mod.error = src, None
        try:
            exec(compile(src, mod.mod.__file__, "exec", dont_inherit=True), mod.mod.__dict__)
        except BaseException as e:  # noqa: BLE001
            mod.error = e
    else:
        mod = CF.build(classes, postponed)
    try:
        out: list[Any] = []
        if mod.error is not None and not isinstance(mod.error, InvalidFieldAnnotations):
            if type(mod.error).__module__.startswith("mashumaro") or _raised_inside(mod.error, "mashumaro"):
                # the serialization layer cannot handle this annotation at all (e.g. tuple[None, ...]):
                # a limitation of the third-party library every node class is subject to, not a verdict
                return [("python-invalid", "mashumaro:" + type(mod.error).__name__)]
            if from_library(mod.error):
                require(False, "unexpected-exception-at-definition",
                        f"{'postponed' if postponed else 'plain'}: {short_tb(mod.error)}\n{_subject_src(mod.src)}")
            return [("python-invalid", type(mod.error).__name__)]
        for c in classes:
            cls = mod.get(c["name"])
            if cls is None:
                if isinstance(mod.error, InvalidFieldAnnotations) and not any(o[0] == "rejected" and o[2] == "definition" for o in out):
                    out.append(("rejected", sorted({n for n, _, _ in mod.error.invalid_annotations}), "definition"))
                else:
                    out.append(("undefined",))
                continue
            try:
                child = [f.name for f in cls.get_child_fields()]
                props = [f.name for f in cls.get_property_fields(False, False, False)]
            except InvalidFieldAnnotations as e:
                names = sorted({n for n, _, _ in e.invalid_annotations})
                # the verdict must not change on a second attempt (a failed first use must not leave
                # the class half-classified)
                for attempt, fn in (("get_child_fields", cls.get_child_fields),
                                    ("get_property_fields", lambda: list(cls.get_property_fields(False, False, False))),
                                    ("instantiation", cls)):
                    try:
                        fn()
                    except InvalidFieldAnnotations as e2:
                        require(sorted({n for n, _, _ in e2.invalid_annotations}) == names, "rejection-changes-on-retry",
                                f"{c['name']} {attempt}")
                    except Exception as e2:  # noqa: BLE001
                        require(False, "unexpected-exception-on-retry", f"{c['name']} {attempt}: {short_tb(e2)}")
                    else:
                        require(False, "rejected-class-accepted-on-retry",
                                f"{'postponed' if postponed else 'plain'} {c['name']}: {attempt} succeeded after the first use "
                                f"had been rejected for {names}\n{_subject_src(mod.src)}")
                out.append(("rejected", names, "first-use"))
                continue
            except Exception as e:  # noqa: BLE001
                require(False, "unexpected-exception-at-first-use",
                        f"{'postponed' if postponed else 'plain'} {c['name']}: {short_tb(e)}\n{_subject_src(mod.src)}")
            try:
                inst = cls()
                ichild = [f.name for f in type(inst).get_child_fields()]
                iprops = [f.name for _, f in inst.get_properties(False, False, False)]
                list(inst.get_child_nodes())
                _ = inst.content_id
            except InvalidFieldAnnotations as e:
                out.append(("rejected", sorted({n for n, _, _ in e.invalid_annotations}), "instantiation"))
                continue
            except Exception as e:  # noqa: BLE001
                require(False, "unexpected-exception-at-instantiation",
                        f"{'postponed' if postponed else 'plain'} {c['name']}: {short_tb(e)}\n{_subject_src(mod.src)}")
            require(ichild == child and iprops == props, "class-vs-instance-accessors", f"{c['name']}: {child}/{props} vs {ichild}/{iprops}")
            out.append(("accepted", child, [p for p in props if p not in ("id", "content_id", "origin")]))
            if c is classes[-1]:
                # an empty subclass defined in another module, where the node class names of this module
                # mean something else: inherited fields keep the verdict of the class that declared them
                try:
                    sub = CF.foreign_subclass(mod, c["name"], postponed)
                    schild = [f.name for f in sub.get_child_fields()]
                    sprops = [f.name for f in sub.get_property_fields(False, False, False)]
                    sinst = sub()
                    ichild2 = [f.name for f in type(sinst).get_child_fields()]
                    iprops2 = [f.name for _, f in sinst.get_properties(False, False, False)]
                except Exception as e:  # noqa: BLE001
                    if type(e).__module__.startswith("mashumaro") or _raised_inside(e, "mashumaro"):
                        lab.tag("foreign-subclass-mashumaro-limit")
                        continue
                    require(False, "inherited-fields-in-another-module",
                            f"{'postponed' if postponed else 'plain'} subclass of {c['name']} in another module: {short_tb(e)}\n"
                            + _subject_src(mod.src))
                require(schild == child and sprops == props and ichild2 == child and iprops2 == props,
                        "inherited-fields-in-another-module",
                        f"{'postponed' if postponed else 'plain'} subclass of {c['name']} in another module: children {schild} "
                        f"properties {sprops}; declaring class: {child} / {props}\n" + _subject_src(mod.src))
                lab.tag("foreign-module-subclass")
        return out
    finally:
        mod.close()


def _raised_inside(exc: BaseException, package: str) -> bool:
    """the innermost frames of the traceback belong to the given third-party package"""
    tb = exc.__traceback__
    last = None
    while tb is not None:
        last = tb.tb_frame.f_code.co_filename
        tb = tb.tb_next
    import os

    return last is not None and (os.sep + package + os.sep) in last or _last_non_stdlib(exc, package)


def _last_non_stdlib(exc: BaseException, package: str) -> bool:
    import os
    import sysconfig

    stdlib = sysconfig.get_paths()["stdlib"]
    tb = exc.__traceback__
    files = []
    while tb is not None:
        files.append(tb.tb_frame.f_code.co_filename)
        tb = tb.tb_next
    for f in reversed(files):
        if f.startswith(stdlib) or f.startswith("<frozen"):
            continue
        return (os.sep + package + os.sep) in f
    return False


def _subject_src(src: str) -> str:
    i = src.find("class C0_")
    j = src.find("class Later_")
    nt = [ln for ln in src.splitlines() if ln.startswith("NT")]
    return "\n".join(nt) + "\n" + src[i - 24:j - 24] if i >= 0 else src[-600:]


def check_chain(data: dict, lab: Labels) -> None:
    classes = data["classes"]
    anns = [f["ann"] for c in classes for f in c["fields"]]
    has_fwd = any(CF.contains(a, lambda x: x["k"] == "node" and x["n"] == "Later") for a in anns)
    has_nt = any(CF.contains(a, lambda x: x["k"] == "newtype") for a in anns)
    lab.tag_if(has_fwd, "forward-ref")
    lab.tag_if(has_nt, "newtype")
    names_seen: set[str] = set()
    override = False
    for c in classes:
        for f in c["fields"]:
            if f["name"] in names_seen:
                override = True
            names_seen.add(f["name"])
    lab.tag_if(override, "override")
    lab.tag(f"levels{len(classes)}")
    expected = []
    for k, c in enumerate(classes):
        ef = effective_fields(classes, k)
        verdicts = {f["name"]: CF.classify_ref(f["ann"]) for f in ef}
        expected.append(verdicts)
    any_rej = any(v == "rejected" for e in expected for v in e.values())
    lab.tag_if(any(v == "child|rejected" for e in expected for v in e.values()), "unspecified-union-through-newtype")
    lab.tag("expect-rejected" if any_rej else "expect-accepted")
    mixed = any(CF.contains(a, lambda x: x["k"] == "node") and CF.contains(a, lambda x: x["k"] in ("scalar", "any", "enum", "lit")) for a in anns)
    lab.nontrivial = any(CF.depth(a) >= 2 for a in anns) or mixed or has_fwd or has_nt

    results = {}
    for postponed in (False, True):
        obs = observe(classes, postponed, lab, decoy=bool(data.get("decoy")))
        mode = "postponed" if postponed else "plain"
        if obs and obs[0][0] == "python-invalid":
            lab.tag("python-invalid-" + mode)
            lab.nontrivial = False
            continue
        results[mode] = obs
        stopped = False
        for c, exp, o in zip(classes, expected, obs):
            rej = sorted(n for n, v in exp.items() if v == "rejected")
            open_ = sorted(n for n, v in exp.items() if v == "child|rejected")  # either verdict, never a property
            if o[0] == "rejected":
                rej = sorted(set(rej) | (set(open_) & set(o[1])))
            else:
                exp = {n: ("child" if v == "child|rejected" else v) for n, v in exp.items()}
            if o[0] == "undefined":
                require(stopped, "class-undefined-without-reason", f"{mode} {c['name']}")
                continue
            if o[0] == "rejected":
                require(bool(rej), "wrongly-rejected", f"{mode} {c['name']} at {o[2]}: fields {o[1]} rejected, reference: {exp}\n"
                        + _render(classes, postponed))
                require(set(o[1]) == set(rej), "rejected-field-set",
                        f"{mode} {c['name']} at {o[2]}: reported {o[1]}, reference {rej}\n" + _render(classes, postponed))
                lab.tag("rejected-at-" + o[2])
                if o[2] == "definition":
                    stopped = True
                continue
            # accepted
            require(not rej, "invalid-annotation-silently-accepted",
                    f"{mode} {c['name']}: reference rejects {rej} but the class works; children={o[1]} properties={o[2]}\n"
                    + _render(classes, postponed))
            exp_child = [n for n, v in exp.items() if v == "child"]
            exp_prop = [n for n, v in exp.items() if v == "property"]
            require(sorted(o[1]) == sorted(exp_child) and sorted(o[2]) == sorted(exp_prop), "classification",
                    f"{mode} {c['name']}: children {o[1]} properties {o[2]}; reference children {exp_child} "
                    f"properties {exp_prop}\n" + _render(classes, postponed))
            require(o[1] == exp_child and o[2] == exp_prop, "field-order", f"{mode} {c['name']}: {o[1]} {o[2]}")
    if "plain" in results and "postponed" in results:
        a = [(o[0], o[1] if len(o) > 1 else None) for o in results["plain"] if o[0] != "undefined"]
        b = [(o[0], o[1] if len(o) > 1 else None) for o in results["postponed"] if o[0] != "undefined"]
        k = min(len(a), len(b))
        require(a[:k] == b[:k], "plain-vs-postponed", f"{a} vs {b}")


def _render(classes: list[dict], postponed: bool) -> str:
    src, _ = CF.emit_module(classes, postponed, 0)
    return _subject_src(src)


def st_chain(ctx: Ctx):
    ann = CF.st_annotation(3, late_enum=True)
    fname = st.sampled_from(["f", "g", "h", "x"])
    # (a field option is no part of the verdict: every fifth field is `init=False`)
    fld = st.tuples(fname, ann, st.sampled_from([False, False, False, False, True])).map(
        lambda t: {"name": t[0], "ann": t[1], **({"flags": {"init": False}} if t[2] else {})})

    def mk(fields_per_class: list[list[dict]]) -> dict:
        classes = []
        for i, fs in enumerate(fields_per_class):
            seen = set()
            uniq = []
            for f in fs:
                if f["name"] not in seen:
                    seen.add(f["name"])
                    uniq.append(f)
            classes.append({"name": f"C{i}", "base": f"C{i - 1}" if i else None, "fields": uniq})
        return {"classes": classes}

    return st.tuples(st.lists(st.lists(fld, min_size=1, max_size=3), min_size=1, max_size=3), st.sampled_from([False, False, True])).map(
        lambda t: {**mk(t[0]), "decoy": t[1]})


PARTS = [Part("chains", check_chain, strategy=st_chain, quick=3200, thorough=100000)]
