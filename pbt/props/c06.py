"""C06 — Tree answers upward queries consistently with the downward structure."""
from __future__ import annotations

import re
from typing import Any

from hypothesis import strategies as st

from pbt import models_v2 as M
from pbt import trees as T
from pbt.runtime import Ctx, Labels, Part, require

PROP = "C06"
RULE = (
    "Hypothesis tree specs without repeated node objects (content- and origin-identical twins at "
    "different positions included, also twin siblings in one tuple), all nodes registered; one Tree "
    "per case, queried for every node (is_in_tree, get_parent, get_parent_info, get_ancestors, "
    "get_depth, is_root, get_xpath), every ordered pair (is_ancestor, relative get_depth incl. "
    "ValueError for non-ancestors), class arguments drawn from the universe for "
    "get_first_ancestor_of_type (single / tuple, exact on/off), and foreign nodes (twins of members "
    "and of the root built outside, unrelated nodes) which must raise KeyError; relative and absolute "
    "queries are interleaved in a drawn order on the same Tree. get_xpath is parsed and walked from the "
    "root with getattr and must be injective. non-trivial = depth >= 3 and at least one twin pair; "
    "distinct = distinct canonical specs."
)
ASSUMPTIONS = [
    "parent map derived from the expanded spec (pbt/trees.py positions)",
    "foreign twins are created while all members are registered, so their ids differ (the property's premise)",
]
FLOORS = {"trees:NONTRIVIAL": 0.15, "trees:twins": 0.3}

XSTEP = re.compile(r"/@([A-Za-z_][A-Za-z_0-9]*)\[(\d+)\]([A-Za-z_][A-Za-z_0-9]*)")


def _expect_raises(exc: Any, fn, clause: str, detail: Any) -> None:
    ename = exc.__name__ if isinstance(exc, type) else "/".join(e.__name__ for e in exc)
    try:
        r = fn()
        if hasattr(r, "__next__"):
            list(r)
    except exc:
        return
    except Exception as e:  # noqa: BLE001
        require(False, clause, f"{detail}: raised {type(e).__name__} instead of {ename}")
    require(False, clause, f"{detail}: did not raise {ename}")


_PROTO: list = []


def _has_items_protocol():
    if not _PROTO:
        from typing import Protocol, runtime_checkable

        @runtime_checkable
        class HasItems(Protocol):
            items: tuple

        _PROTO.append(HasItems)
    return _PROTO[0]


def check_tree(data: dict, lab: Labels) -> None:
    from pyoak.tree import Tree

    b, root_e, ex = T.build(data["tree"], allow_share=False)
    root = b.root
    pos = T.positions(root_e)
    nodes = T.nodes_preorder(root_e)
    parent: dict[int, tuple[T.ENode, str, int | None] | None] = {root_e.uid: None}
    for c, p, fn, i in pos:
        require(c.uid not in parent, "harness-no-repeats", "repeated object generated")
        parent[c.uid] = (p, fn, i)
    by_uid = {n.uid: n for n in nodes}

    def chain(u: int) -> list[int]:
        out = []
        cur = parent[u]
        while cur is not None:
            out.append(cur[0].uid)
            cur = parent[cur[0].uid]
        return out

    depth = T.depth_of_tree(root_e)
    keys: dict = {}
    for n in nodes:
        keys.setdefault((T.content_key(n), tuple(map(str, n.origin))), []).append(n)
    has_twins = any(len(v) > 1 for v in keys.values())
    lab.tag_if(has_twins, "twins")
    lab.tag(f"depth{min(depth, 5)}")
    lab.nontrivial = depth >= 3 and has_twins

    for n in nodes:
        live = b.of(n)
        require(type(live).get_any(live.id) is live, "harness-all-registered", n.uid)

    tree = Tree(root) if data["order"] % 2 else root.to_tree()
    require(tree.root is root, "root", "")

    def absolute_pass(tag: str) -> None:
        for n in nodes:
            live = b.of(n)
            ch = chain(n.uid)
            require(tree.is_in_tree(live) is True, "is_in_tree-member", n.uid)
            pinfo = parent[n.uid]
            if pinfo is None:
                require(tree.get_parent(live) is None, "get_parent-root", tag)
                require(tuple(tree.get_parent_info(live)) == (None, None, None), "get_parent_info-root", tag)
                require(tree.is_root(live) is True, "is_root", tag)
            else:
                p, fn, i = pinfo
                require(tree.get_parent(live) is b.of(p), "get_parent", f"{tag} node {n.uid}")
                gp, gf, gi = tree.get_parent_info(live)
                require(gp is b.of(p) and gf is type(b.of(p)).__dataclass_fields__[fn] and gi == i,
                        "get_parent_info", f"{tag} node {n.uid}: expected ({p.uid},{fn},{i}) got field "
                        f"{getattr(gf, 'name', gf)} index {gi}")
                require(tree.is_root(live) is False, "is_root", f"{tag} node {n.uid}")
            anc = list(tree.get_ancestors(live))
            require(len(anc) == len(ch) and all(x is b.live[u] for x, u in zip(anc, ch)), "get_ancestors",
                    f"{tag} node {n.uid}")
            require(tree.get_depth(live) == len(ch), "get_depth",
                    f"{tag} node {n.uid}: expected {len(ch)} got {tree.get_depth(live)}")

    def relative_pass() -> None:
        for n in nodes:
            ln = b.of(n)
            ch = chain(n.uid)
            for m in nodes:
                lm = b.of(m)
                is_anc = m.uid in ch
                require(tree.is_ancestor(ln, lm) is is_anc, "is_ancestor",
                        f"node {n.uid} ancestor {m.uid}: expected {is_anc}")
                if is_anc:
                    d = ch.index(m.uid) + 1
                    got = tree.get_depth(ln, relative_to=lm)
                    require(got == d, "get_depth-relative", f"node {n.uid} rel {m.uid}: expected {d} got {got}")
                    got2 = tree.get_depth(ln, lm, False)  # the ancestor check switched off: same answer for a real ancestor
                    require(got2 == d, "get_depth-relative", f"node {n.uid} rel {m.uid} check_ancestor=False: expected {d} got {got2}")
                else:
                    _expect_raises(ValueError, lambda: tree.get_depth(ln, relative_to=lm),
                                   "get_depth-relative-non-ancestor", f"node {n.uid} rel {m.uid}")
                    # documented: the depth is counted up to relative_to only "if it is the ancestor at
                    # all"; with the check switched off a non-ancestor is never met and the walk ends at the root
                    got3 = tree.get_depth(ln, lm, False)
                    require(got3 == len(ch), "get_depth-relative-non-ancestor",
                            f"node {n.uid} rel {m.uid} check_ancestor=False: expected the absolute depth {len(ch)}, got {got3}")

    order = data["order"] // 2 % 3
    if order == 0:
        absolute_pass("first")
        relative_pass()
        absolute_pass("after-relative")
    elif order == 1:
        relative_pass()
        absolute_pass("after-relative")
    else:
        # interleave a few relative queries on deep nodes first
        for n in reversed(nodes):
            ch = chain(n.uid)
            for k, u in enumerate(ch):
                require(tree.get_depth(b.of(n), relative_to=b.live[u]) == k + 1, "get_depth-relative", (n.uid, u))
        absolute_pass("after-deep-relative")
        relative_pass()

    # first ancestor of type
    names = ["ASTNode", *M.CLASS_NAMES]
    for cmask, exact in data["types"]:
        sel = [c for i, c in enumerate(names) if cmask >> i & 1]
        clss = tuple(M.cls(c) for c in sel)
        arg: Any = clss[0] if len(clss) == 1 else clss
        for n in nodes:
            exp = None
            for u in chain(n.uid):
                cn = by_uid[u].cls
                if (cn in sel) if exact else any(M.is_subclass(cn, s) for s in sel):
                    exp = b.live[u]
                    break
            got = tree.get_first_ancestor_of_type(b.of(n), arg, exact_type=exact)
            require(got is exp, "get_first_ancestor_of_type", f"node {n.uid} classes {sel} exact={exact}")

    # an abstract marker class that node classes are registered with (isinstance holds, no MRO entry),
    # alone and next to an ordinary class
    marker = M.load().Marker
    for n in nodes:
        for extra in ((), ("LeafA",), ("Seq",)):
            exp = None
            for u in chain(n.uid):
                cn = by_uid[u].cls
                if any(M.is_subclass(cn, s) for s in (*M.MARKED, *extra)):
                    exp = b.live[u]
                    break
            arg2: Any = marker if not extra else (*(M.cls(c) for c in extra), marker)
            got = tree.get_first_ancestor_of_type(b.of(n), arg2)
            require(got is exp, "get_first_ancestor_of_type", f"node {n.uid}: registered marker class {extra}")
            got_x = tree.get_first_ancestor_of_type(b.of(n), marker, exact_type=True)
            require(got_x is None, "get_first_ancestor_of_type", f"node {n.uid}: exact type of an abstract marker")

    # a runtime-checkable protocol with a data member ("anything that has an `items` attribute"):
    # an instance test like any other, alone and inside a tuple
    proto = _has_items_protocol()
    for n in nodes:
        for extra in ((), ("LeafA",)):
            exp = None
            for u in chain(n.uid):
                if hasattr(b.live[u], "items") or any(M.is_subclass(by_uid[u].cls, s) for s in extra):
                    exp = b.live[u]
                    break
            arg3: Any = proto if not extra else (*(M.cls(c) for c in extra), proto)
            got = tree.get_first_ancestor_of_type(b.of(n), arg3)
            require(got is exp, "get_first_ancestor_of_type", f"node {n.uid}: runtime-checkable protocol {extra}")

    # xpath: walk it
    seen: dict[str, int] = {}
    for n in nodes:
        xp = tree.get_xpath(b.of(n))
        require(xp not in seen, "get_xpath-injective", f"{xp} for nodes {seen.get(xp)} and {n.uid}")
        seen[xp] = n.uid
        steps = XSTEP.findall(xp)
        require("".join(f"/@{f}[{i}]{c}" for f, i, c in steps) == xp and steps, "get_xpath-format", xp)
        f0, i0, c0 = steps[0]
        require((f0, i0, c0) == ("root", "0", type(root).__name__), "get_xpath-root-step", xp)
        cur = root
        for f, i, c in steps[1:]:
            v = getattr(cur, f, None)
            if isinstance(v, tuple):
                require(int(i) < len(v), "get_xpath-walk", xp)
                cur = v[int(i)]
            else:
                require(i == "0" and v is not None, "get_xpath-walk", xp)
                cur = v
            require(type(cur).__name__ == c, "get_xpath-class", xp)
        require(cur is b.of(n), "get_xpath-walk", f"{xp} does not lead to node {n.uid}")

    # foreign nodes: twins of members built outside the tree, unrelated nodes
    foreign = []
    sel_members = [nodes[k % len(nodes)] for k in data["foreign"]] + [root_e]
    for m in sel_members:
        ex2 = T.Expander(allow_share=False)
        ex2._uid = 10_000 + len(foreign) * 1000
        twin_e = ex2._copy(m)
        fb = T.Built(twin_e, b.sources)
        foreign.append(fb.root)
        require(fb.root == b.of(m) and fb.root is not b.of(m), "harness-foreign-twin", m.uid)
    foreign.append(M.cls("LeafA")(v=12345))
    lab.count("foreign", len(foreign))
    member = b.of(nodes[-1])
    for f in foreign:
        require(tree.is_in_tree(f) is False, "is_in_tree-foreign", type(f).__name__)
        require(tree.is_root(f) is False, "is_root-foreign", type(f).__name__)
        for name, fn in (
            ("get_parent", lambda f=f: tree.get_parent(f)),
            ("get_parent_info", lambda f=f: tree.get_parent_info(f)),
            ("get_ancestors", lambda f=f: tree.get_ancestors(f)),
            ("get_depth", lambda f=f: tree.get_depth(f)),
            ("get_xpath", lambda f=f: tree.get_xpath(f)),
            ("get_first_ancestor_of_type", lambda f=f: tree.get_first_ancestor_of_type(f, M.cls("Base"))),
            ("is_ancestor", lambda f=f: tree.is_ancestor(f, root)),
        ):
            _expect_raises(KeyError, fn, "foreign-node-KeyError", f"{name}({type(f).__name__} twin)")
        _expect_raises((ValueError, KeyError), lambda f=f: tree.get_depth(member, relative_to=f),
                       "get_depth-relative-foreign", type(f).__name__)
    # members are still all in the tree after foreign twins exist
    absolute_pass("final")
    # a successor of the root: the root is given up and built again from the same arguments (it gets
    # the same id); the successor's tree is the successor's, whatever trees of the old root still exist
    import dataclasses as _dc

    kept_old = [root.to_tree(), tree]
    kw = {f.name: getattr(root, f.name) for f in _dc.fields(root) if f.init and f.name not in ("id", "content_id")}
    if nodes and root.detach_self():
        r2 = type(root)(**kw)
        if r2 is not root and r2.id == root.id:
            lab.tag("successor-root-same-id")
            for t2 in (r2.to_tree(), Tree(r2)):
                require(t2.is_root(r2) is True and t2.get_parent(r2) is None and t2.get_depth(r2) == 0,
                        "successor-root-tree", "root queries")
                for c, fn, i in T.live_children(r2):
                    gp, gf, gi = t2.get_parent_info(c)
                    require(gp is r2 and gf.name == fn and gi == i and t2.get_depth(c) == 1,
                            "successor-root-tree", f"child {fn}[{i}] reports another parent object")
                    require(list(t2.get_ancestors(c))[-1] is r2, "successor-root-tree", "ancestors end in the old root")
        del kept_old


def st_case(ctx: Ctx):
    g = T.TreeGen(leaves=ctx.pick(9, 14), share=False, twins=True, origin_rate=0.2, refs=True)
    names = 1 + len(M.CLASS_NAMES)
    return st.fixed_dictionaries(
        {
            "tree": st.one_of(g.inner_tree(), g.inner_tree(), g.tree()),
            "order": st.integers(0, 5),
            "types": st.lists(st.tuples(st.integers(1, 2**names - 1), st.booleans()).map(list), min_size=2, max_size=3),
            "foreign": st.lists(st.integers(0, 100), min_size=1, max_size=3),
        }
    )


def enum_deep(ctx: Ctx):
    for shape in ("one", "items", "child", "mixed"):
        for factor in ((2, 4) if ctx.thorough else (2,)):
            for via in ("Tree", "to_tree"):
                yield {"shape": shape, "factor": factor, "via": via}


def check_deep(data: dict, lab: Labels) -> None:
    """a chain far deeper than the recursion limit: the upward queries agree with the chain"""
    from pyoak.tree import Tree

    from pbt import origins as og

    depth = T.deep_depth(data["factor"])
    nodes = T.build_chain(depth, data["shape"], og.make_sources())
    pos = {id(c): (p, fn, i) for c, p, fn, i in T.chain_positions(nodes)}
    root = nodes[0]
    tree = Tree(root) if data["via"] == "Tree" else root.to_tree()
    lab.tag("deep-chain")
    lab.sample_class = "deep"
    n_all = len(nodes)
    picks = sorted({0, 1, 2, n_all // 2, n_all - 2, n_all - 1, sys_limit() - 1, sys_limit(), sys_limit() + 1})
    for k in picks:
        n = nodes[k]
        require(tree.is_in_tree(n) is True, "is_in_tree-member", k)
        require(tree.is_root(n) is (k == 0), "is_root", k)
        if k == 0:
            require(tree.get_parent(n) is None and tuple(tree.get_parent_info(n)) == (None, None, None), "get_parent-root", "")
        else:
            p, fn, i = pos[id(n)]
            gp, gf, gi = tree.get_parent_info(n)
            require(tree.get_parent(n) is p and gp is p and gf.name == fn and gi == i, "get_parent_info", f"level {k}")
        anc = list(tree.get_ancestors(n))
        require(len(anc) == k and all(a is e for a, e in zip(anc, reversed(nodes[:k]))), "get_ancestors", f"level {k}")
        require(tree.get_depth(n) == k, "get_depth", f"level {k}: {tree.get_depth(n)}")
        for j in sorted({0, k // 2, max(k - 1, 0)}):
            if j < k:
                require(tree.is_ancestor(n, nodes[j]) is True and tree.is_ancestor(nodes[j], n) is False, "is_ancestor", (k, j))
                require(tree.get_depth(n, relative_to=nodes[j]) == k - j, "get_depth-relative", (k, j))
        if k < n_all - 1:
            _expect_raises(ValueError, lambda n=n: tree.get_depth(n, relative_to=nodes[-1]), "get_depth-relative-non-ancestor", k)
    leaf = nodes[-1]
    first_uni = next((a for a in reversed(nodes[:-1]) if type(a).__name__ == "Uni"), None)
    require(tree.get_first_ancestor_of_type(leaf, M.cls("Uni")) is first_uni, "get_first_ancestor_of_type", "deep")
    require(tree.get_first_ancestor_of_type(leaf, M.cls("LeafB")) is None, "get_first_ancestor_of_type", "deep none")
    xs = {tree.get_xpath(nodes[k]) for k in picks}
    require(len(xs) == len(picks), "get_xpath-shared", "deep")
    lab.nontrivial = True


def sys_limit() -> int:
    import sys

    return sys.getrecursionlimit()


PARTS = [Part("trees", check_tree, strategy=st_case, quick=6400, thorough=256000),
         Part("deep", check_deep, enumerate=enum_deep,
              exhaustive_note="4 chain shapes x depth 2x (thorough: and 4x) the recursion limit x {Tree(root), root.to_tree()}")]
