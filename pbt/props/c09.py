"""C09 — visitor dispatch and transformation follow the rules and keep untouched parts."""
from __future__ import annotations

import dataclasses
from typing import Any

from hypothesis import strategies as st

from pbt import frame
from pbt import models_v2 as M
from pbt import origins as og
from pbt import trees as T
from pbt.runtime import Ctx, Labels, Part, require

PROP = "C09"
RULE = (
    "Hypothesis tree specs (shared subtrees allowed) x two rule sets (class name -> keep / clone / "
    "rewrite property / replace by other leaf / remove / raise), keyed on concrete classes and/or "
    "only on base classes (Base, LeafA, Mixed, ASTNode), x strict flag. Visitor classes are "
    "synthesised per case; first a plain ASTVisitor with rule set 1 is dispatched on every node, "
    "then an ASTTransformVisitor with rule set 2 transforms the tree (each visit_X runs "
    "generic_visit first). Oracle: dispatch log equals the MRO reference; the result equals a "
    "reference bottom-up rewrite; unchanged subtrees are the same objects, every ancestor of a "
    "change is a new object; removals happen at removable positions (tuple elements, optional "
    "fields, root); the input tree's frame snapshot is unchanged, also when a rule raises. "
    "non-trivial = a rule fires on a non-root node and some subtree stays unchanged."
)
ASSUMPTIONS = [
    "reference rewrite in pbt/props/c09.py; removal rules degrade to keep at non-removable positions (required single field, fixed tuple) in both the visitor and the reference",
]
FLOORS = {"cases:removal": 0.08, "cases:base-class-only": 0.05, "cases:strict": 0.3, "cases:raise": 0.03}

RULE_CLASSES = ["ASTNode", *M.CLASS_NAMES]
ACTIONS = ["keep", "clone", "rewrite", "replace", "remove", "raise", "raise_nth", "rewrite_inplace", "rewrite_inplace"]


class RuleError(Exception):
    pass


class RuleAttrError(RuleError, AttributeError):
    """what a rule raises when it trips over a missing attribute: an AttributeError like any other
    exception of a rule - it propagates; it does not mean that the visitor has no such method"""


def dispatch_ref(cls_name: str, methods: set[str], strict: bool) -> str:
    if strict:
        return f"visit_{cls_name}" if cls_name in methods else "generic_visit"
    for c in [*M.mro_names(cls_name), "ASTNode"]:
        if c in methods:
            return f"visit_{c}"
    return "generic_visit"


class R:
    """expected result node; `orig` set = the very same object as that input node."""

    __slots__ = ("orig", "cls", "props", "kids", "origin")

    def __init__(self, orig=None, cls=None, props=None, kids=None, origin=None):
        self.orig, self.cls, self.props, self.kids, self.origin = orig, cls, props, kids, origin


def _as_R(e: T.ENode) -> R:
    return R(orig=e)


def removable_positions(root_e: T.ENode) -> dict[int, bool]:
    """uid -> True iff every position of that object allows removal."""
    ok: dict[int, bool] = {root_e.uid: True}
    for c, p, fn, i in T.positions(root_e):
        f = next(f for f in M.child_fields(p.cls) if f.name == fn)
        can = f.kind in ("opt", "tuple")
        ok[c.uid] = ok.get(c.uid, True) and can
    return ok


def ref_transform(e: T.ENode, rules: dict, strict: bool, removable: dict, log: list, fired: list,
                  counters: dict | None = None) -> R | None:
    counters = counters if counters is not None else {}
    method = dispatch_ref(e.cls, set(rules), strict)
    log.append((method, e.uid))
    kids: dict = {}
    changed = False
    for f in M.child_fields(e.cls):
        v = e.kids.get(f.name)
        if v is None:
            kids[f.name] = None
        elif isinstance(v, list):
            out = []
            for c in v:
                r = ref_transform(c, rules, strict, removable, log, fired, counters)
                if r is None:
                    changed = True
                    continue
                if r.orig is not c:
                    changed = True
                out.append(r)
            kids[f.name] = out
        else:
            r = ref_transform(v, rules, strict, removable, log, fired, counters)
            kids[f.name] = r
            if r is None or r.orig is not v:
                changed = True
    if not changed:
        g = _as_R(e)
    else:
        g = R(cls=e.cls, props=_all_props(e), kids=kids, origin=e.origin)
    if method == "generic_visit":
        return g
    action = rules[method[6:]]
    a = action[0]
    if a == "rewrite_inplace":
        a = "rewrite"  # same result as the rule written with generic_visit + replace
    if a == "raise_nth":
        # the rule keeps its first firings and fails at a later one (after earlier siblings were rebuilt)
        counters[method] = counters.get(method, 0) + 1
        a = "raise" if counters[method] == 2 + action[1] % 3 else "keep"
    if a != "keep":
        fired.append((a, e.uid))
    if a == "keep":
        return g
    if a == "raise":
        raise RuleError(e.uid)
    if a == "remove":
        return None if removable.get(e.uid, False) else g
    if a == "replace":
        return R(cls="LeafA", props={"v": 70 + action[1] % 5}, kids={}, origin=["no"])
    base_props = _all_props(e) if g.orig is not None else g.props
    base_kids = _orig_kids(e) if g.orig is not None else g.kids
    if a == "clone":
        return R(cls=e.cls, props=dict(base_props), kids=base_kids, origin=e.origin)
    if a == "rewrite":
        props = dict(base_props)
        origin = e.origin
        if "v" in props:
            props["v"] = 40 + action[1] % 5
        else:
            origin = ["gen", action[1] % 3]
        return R(cls=e.cls, props=props, kids=base_kids, origin=origin)
    raise ValueError(a)


def _all_props(e: T.ENode) -> dict:
    return {f.name: T.prop_value(e, f) for f in M.prop_fields(e.cls)}


def _orig_kids(e: T.ENode) -> dict:
    out: dict = {}
    for f in M.child_fields(e.cls):
        v = e.kids.get(f.name)
        out[f.name] = None if v is None else ([_as_R(c) for c in v] if isinstance(v, list) else _as_R(v))
    return out


def make_transformer(rules: dict, strict: bool, removable_live: dict, log: list, sources: list):
    from pyoak.visitor import ASTTransformVisitor

    def make(cls_name: str, action: list):
        count = [0]

        def visit(self, node):
            log.append((f"visit_{cls_name}", id(node)))
            if action[0] == "rewrite_inplace":
                # the documented way to write a rule: take the mapping of changed children (made for
                # dataclasses.replace), add the rule's own change to it, rebuild
                changes = self._transform_children(node)
                if any(f.name == "v" for f in dataclasses.fields(node)):
                    changes["v"] = 40 + action[1] % 5
                else:
                    changes["origin"] = og.build_origin(["gen", action[1] % 3], sources)
                return dataclasses.replace(node, **changes)
            new = ASTTransformVisitor.generic_visit(self, node)
            a = action[0]
            if a == "raise_nth":
                count[0] += 1
                a = "raise" if count[0] == 2 + action[1] % 3 else "keep"
            if a == "keep":
                return new
            if a == "raise":
                raise (RuleAttrError if action[1] % 2 else RuleError)(id(node))
            if a == "remove":
                return None if removable_live.get(id(node), False) else new
            if a == "replace":
                return M.cls("LeafA")(v=70 + action[1] % 5)
            if a == "clone":
                return dataclasses.replace(new)
            if a == "rewrite":
                if any(f.name == "v" for f in dataclasses.fields(new)):
                    return dataclasses.replace(new, v=40 + action[1] % 5)
                return dataclasses.replace(new, origin=og.build_origin(["gen", action[1] % 3], sources))
            raise ValueError(a)

        visit.__name__ = f"visit_{cls_name}"
        return visit

    def generic_visit(self, node):
        log.append(("generic_visit", id(node)))
        return ASTTransformVisitor.generic_visit(self, node)

    ns: dict = {f"visit_{c}": make(c, a) for c, a in rules.items()}
    ns["generic_visit"] = generic_visit
    ns["strict"] = strict
    variant = (len(rules) + sum(len(c) for c in rules)) % 3
    if variant == 1:
        # rules and the strictness setting live on a base visitor class; the visitor used is an empty subclass
        base = type("GenTransformerBase", (ASTTransformVisitor,), ns)
        return type("GenTransformer", (base,), {})()
    if variant == 2:
        # the rule set is attached to the instance (a rule table installed with setattr)
        import types as _t

        inst = type("GenTransformer", (ASTTransformVisitor,), {"generic_visit": generic_visit, "strict": strict})()
        for name, fn in ns.items():
            if name.startswith("visit_"):
                setattr(inst, name, _t.MethodType(fn, inst))
        return inst
    return type("GenTransformer", (ASTTransformVisitor,), ns)()


def make_dispatcher(methods: list[str], strict: bool, validate: bool):
    from pyoak.visitor import ASTVisitor

    def make(cls_name: str):
        def visit(self, node):
            return f"visit_{cls_name}"

        visit.__name__ = f"visit_{cls_name}"
        if validate:
            visit.__annotations__ = {"node": M.cls(cls_name)}
        return visit

    ns: dict = {f"visit_{c}": make(c) for c in methods}
    ns["generic_visit"] = lambda self, node: "generic_visit"
    ns["strict"] = strict
    import types as _t

    variant = (len(methods) + sum(len(c) for c in methods)) % 3
    if variant == 1:
        base = _t.new_class("GenDispatcherBase", (ASTVisitor,), {"validate": validate}, lambda d: d.update(ns))
        return _t.new_class("GenDispatcher", (base,), {"validate": validate})()
    if variant == 2 and not validate:
        inst = _t.new_class("GenDispatcher", (ASTVisitor,), {}, lambda d: d.update(
            {"generic_visit": ns["generic_visit"], "strict": strict}))()
        for name, fn in ns.items():
            if name.startswith("visit_"):
                setattr(inst, name, _t.MethodType(fn, inst))
        return inst
    return _t.new_class("GenDispatcher", (ASTVisitor,), {"validate": validate}, lambda d: d.update(ns))()


def compare(live: Any, exp: R | None, b: T.Built, orig_ids: set[int], path: str, sources: list) -> None:
    if exp is None:
        require(live is None, "transform-removed", f"{path}: expected removal")
        return
    require(live is not None, "transform-unexpected-removal", path)
    if exp.orig is not None:
        require(live is b.of(exp.orig), "unchanged-subtree-not-same-object",
                f"{path}: expected the input object E{exp.orig.uid} ({exp.orig.cls}), got "
                f"{'another input object' if id(live) in orig_ids else 'a new ' + type(live).__name__}")
        return
    require(id(live) not in orig_ids, "changed-node-is-input-object",
            f"{path}: expected a new {exp.cls} node, got an input object ({type(live).__name__})")
    require(type(live).__name__ == exp.cls, "transform-class", f"{path}: {type(live).__name__} vs {exp.cls}")
    for k, v in exp.props.items():
        require(T.typed_value(getattr(live, k)) == T.typed_value(v), "transform-property", f"{path}.{k}")
    require(og.origin_spec_of(live.origin, sources) == exp.origin, "transform-origin", path)
    for f in M.child_fields(exp.cls):
        ev = exp.kids.get(f.name)
        lv = getattr(live, f.name)
        if f.kind in ("one", "opt"):
            compare(lv, ev, b, orig_ids, f"{path}.{f.name}", sources)
        else:
            require(isinstance(lv, tuple), "transform-tuple-type", f"{path}.{f.name}: {type(lv).__name__}")
            require(len(lv) == len(ev), "transform-tuple-length",
                    f"{path}.{f.name}: expected {len(ev)} elements, got {len(lv)}")
            for i, (x, y) in enumerate(zip(lv, ev)):
                compare(x, y, b, orig_ids, f"{path}.{f.name}[{i}]", sources)


def check_case(data: dict, lab: Labels) -> None:
    b, root_e, ex = T.build(data["tree"])
    sources = b.sources
    root = b.root
    strict = data["strict"]
    lab.tag_if(strict, "strict")
    present = {e.cls for e in T.nodes_preorder(root_e)}
    present_sorted = sorted(present)
    bases = ["ASTNode", "Base", "LeafA", "Mixed"]

    def resolve(rs: list) -> dict:
        out = {}
        for i, a, mode in rs:
            pool = present_sorted if mode == 0 else (bases if mode == 1 else RULE_CLASSES)
            out[pool[i % len(pool)]] = a
        return out

    rules1 = resolve(data["rules1"])
    rules2 = resolve(data["rules2"])
    base_only = bool(rules2) and not (set(rules2) & present) and any(
        dispatch_ref(c, set(rules2), False) != "generic_visit" for c in present)
    lab.tag_if(base_only, "base-class-only")
    snap = frame.Snapshot(T.live_nodes(root))
    nodes = T.nodes_preorder(root_e)

    # 1. plain visitor dispatch with rule set 1 on every node
    try:
        disp = make_dispatcher(list(rules1), strict, data["validate"])
    except TypeError as e:
        require(False, "validate-rejected-matching-annotations", str(e)[:200])
    for e in nodes:
        got = disp.visit(b.of(e))
        exp = dispatch_ref(e.cls, set(rules1), strict)
        require(got == exp, "dispatch", f"{e.cls} with methods {sorted(rules1)} strict={strict}: {got}, expected {exp}")
    # strictness is a property of the visitor *object*: two objects of one class that set it in
    # __init__, used alternately (and through node.accept as well)
    two = [make_dispatcher(list(rules1), strict, data["validate"]), make_dispatcher(list(rules1), strict, data["validate"])]
    two[0].strict, two[1].strict = strict, not strict
    for k, e in enumerate(nodes):
        for j in ((0, 1) if k % 2 else (1, 0)):
            v = two[j]
            got = v.visit(b.of(e)) if (k + j) % 3 else b.of(e).accept(v)
            exp = dispatch_ref(e.cls, set(rules1), v.strict)
            require(got == exp, "dispatch", f"{e.cls} with methods {sorted(rules1)} strict={v.strict} set on the visitor object: "
                    f"{got}, expected {exp}")
    if data["validate"] and rules1:
        # a mismatching annotation must be refused
        from pyoak.visitor import ASTVisitor

        bad_name = sorted(rules1)[0]
        other = "LeafB" if bad_name != "LeafB" else "LeafA"

        def visit(self, node):
            return None

        visit.__annotations__ = {"node": M.cls(other)}
        import types as _t

        try:
            _t.new_class("BadV", (ASTVisitor,), {"validate": True},
                         lambda d: d.update({f"visit_{bad_name}": visit, "generic_visit": lambda s, n: None}))
            require(False, "validate-accepted-mismatch", f"visit_{bad_name}(node: {other})")
        except TypeError:
            pass
        lab.tag("validate")

    # 2. transformation with rule set 2
    removable = removable_positions(root_e)
    removable_live = {id(b.live[u]): ok for u, ok in removable.items()}
    log_live: list = []
    tr = make_transformer(rules2, strict, removable_live, log_live, sources)
    log_ref: list = []
    fired: list = []
    raised = False
    try:
        exp = ref_transform(root_e, rules2, strict, removable, log_ref, fired)
    except RuleError:
        raised = True
        exp = None
    orig_ids = {id(n) for n in snap.nodes}
    from pyoak.node import ASTNode as _AN

    member_before = [(_AN.get_any(n.id) is n) for n in snap.nodes]
    try:
        res = tr.transform(root)
        require(not raised, "transform-should-raise", "a raise rule fired in the reference but transform returned")
        compare(res, exp, b, orig_ids, "root", sources)
    except RuleError:
        require(raised, "transform-raised-unexpectedly", "")
        lab.tag("raise")
    uid_of = {id(n): u for u, n in b.live.items()}
    got_log = [(m, uid_of.get(i, -1)) for m, i in log_live]
    require(got_log == log_ref, "transform-dispatch-log", f"got {got_log[:12]} expected {log_ref[:12]}")
    d = snap.diff()
    require(d is None, "input-tree-modified", d or "")
    member_after = [(_AN.get_any(n.id) is n) for n in snap.nodes]
    require(member_after == member_before, "input-tree-registry-membership-changed",
            f"raised={raised}: {sum(1 for x, y in zip(member_before, member_after) if x != y)} input nodes")
    for a, _ in fired:
        lab.tag("fired-" + a)
    removed = [u for a, u in fired if a == "remove" and removable.get(u)]
    lab.tag_if(bool(removed), "removal")
    for u in removed:
        for c, p, fn, i in T.positions(root_e):
            if c.uid == u and i is not None:
                n = len(p.kids[fn])
                lab.tag("removal-first" if i == 0 else ("removal-last" if i == n - 1 else "removal-middle"))
            elif c.uid == u:
                lab.tag("removal-optional-field")
    lab.nontrivial = (
        not raised and any(u != root_e.uid for _, u in fired) and exp is not None and exp.orig is None
        and len(nodes) > 2
    )


def st_case(ctx: Ctx):
    g = T.TreeGen(leaves=ctx.pick(9, 14), origin_rate=0.15)
    g2 = T.TreeGen(leaves=ctx.pick(7, 10), origin_rate=0.1, detach_rate=0.3)
    action = st.one_of(
        st.tuples(st.sampled_from(["keep", "clone", "rewrite", "replace", "remove", "remove"]), st.integers(0, 9)).map(list),
        st.tuples(st.sampled_from(ACTIONS), st.integers(0, 9)).map(list),
    )
    rule = st.tuples(st.integers(0, 40), action, st.sampled_from([0, 0, 0, 1, 2])).map(list)
    base_rule = st.tuples(st.integers(0, 3), action, st.just(1)).map(list)
    rules = st.one_of(st.lists(rule, max_size=4), st.lists(rule, min_size=1, max_size=3),
                      st.lists(base_rule, min_size=1, max_size=2))
    return st.fixed_dictionaries(
        {
            # (g2: a given-up node next to an equal successor of the same id under one parent)
            "tree": st.one_of(g.inner_tree(), g2.inner_tree(), g.tree()),
            "rules1": rules,
            "rules2": st.one_of(st.lists(rule, min_size=1, max_size=4), st.lists(rule, min_size=2, max_size=4),
                                st.lists(base_rule, min_size=1, max_size=2)),
            "strict": st.booleans(),
            "validate": st.booleans(),
        }
    )


# ------------------------------------------------------------------------------ same-named classes

_TWINS: list = []


def _twin_classes() -> list:
    """three node classes of one name (a class factory called with three bases), in one module."""
    if not _TWINS:
        from dataclasses import dataclass

        def make(base: type) -> type:
            @dataclass(frozen=True, kw_only=True)
            class C09Twin(base):  # type: ignore[misc, valid-type]
                pass

            return C09Twin

        _TWINS.extend([make(M.cls("LeafA")), make(M.cls("LeafB")), make(M.cls("Base"))])
    return _TWINS


def check_same_name(data: dict, lab: Labels) -> None:
    """dispatch goes by the node's own class: node classes that share a `__name__` but not their bases
    are visited by one visitor class in a drawn order (plain visitor and transformer, both strictness
    settings); each node gets the method its own MRO prescribes."""
    import dataclasses
    import types as _t

    from pyoak.visitor import ASTTransformVisitor, ASTVisitor

    tw = _twin_classes()
    bases = ["LeafA", "LeafB", "Base"]
    methods = [m for k, m in enumerate(["LeafA", "LeafB", "Base", "C09Twin", "ASTNode"]) if data["methods"] >> k & 1]
    strict = bool(data["strict"])

    def expected(k: int) -> str:
        mro = ["C09Twin", *M.mro_names(bases[k]), "ASTNode"]
        if strict:
            return "visit_C09Twin" if "C09Twin" in methods else "generic_visit"
        return next((f"visit_{c}" for c in mro if c in methods), "generic_visit")

    def mk(name: str):
        def visit(self, node):
            return name
        visit.__name__ = name
        return visit

    ns: dict = {f"visit_{c}": mk(f"visit_{c}") for c in methods}
    ns["generic_visit"] = lambda self, node: "generic_visit"
    ns["strict"] = strict
    vis = _t.new_class("TwinDispatcher", (ASTVisitor,), {}, lambda d: d.update(ns))()
    order = [k % 3 for k in data["order"]]
    nodes = [tw[k](**({"v": i} if k < 2 else {})) for i, k in enumerate(order)]
    for n, k in zip(nodes, order):
        got = vis.visit(n)
        require(got == expected(k), "dispatch", f"visitor with {methods} strict={strict}, classes visited in order "
                f"{[bases[j] for j in order]}: a C09Twin({bases[k]}) went to {got}, its own MRO says {expected(k)}")
    # the same through a transformer: nodes whose method is a rule are rewritten (v + 100), the others kept
    def rule(self, node):
        return dataclasses.replace(node, v=node.v + 100) if hasattr(node, "v") else node

    tns: dict = {f"visit_{c}": rule for c in methods}
    tns["strict"] = strict
    tr = _t.new_class("TwinTransformer", (ASTTransformVisitor,), {}, lambda d: d.update(tns))()
    root = M.cls("Mixed")(child=None, items=tuple(nodes), v=0)
    if "Mixed" not in methods and not (not strict and ({"Base", "ASTNode"} & set(methods))):
        res = tr.transform(root)
        require(res is not None and len(res.items) == len(nodes), "transform-result", "element count")
        for n, r, k in zip(nodes, res.items, order):
            fires = expected(k) != "generic_visit" and hasattr(n, "v")
            if fires:
                require(r is not n and r.v == n.v + 100, "transform-dispatch",
                        f"C09Twin({bases[k]}) with rules {methods} strict={strict} order {[bases[j] for j in order]}: rule did not fire")
            else:
                require(r is n, "transform-dispatch",
                        f"C09Twin({bases[k]}) with rules {methods} strict={strict} order {[bases[j] for j in order]}: "
                        f"no rule applies, yet the node was rewritten")
        lab.tag("transformer")
    lab.tag_if(len(set(order)) >= 2, "two-or-more-same-named-classes")
    lab.nontrivial = len(set(order)) >= 2 and bool(methods)


def st_same_name(ctx: Ctx):
    return st.fixed_dictionaries({"order": st.lists(st.integers(0, 2), min_size=2, max_size=6), "methods": st.integers(0, 31),
                                  "strict": st.booleans()})


PARTS = [Part("cases", check_case, strategy=st_case, quick=12000, thorough=320000),
         Part("same_name", check_same_name, strategy=st_same_name, quick=800, thorough=8000)]
