"""C12 — child and property accessors return exactly what the class definition dictates."""
from __future__ import annotations

import dataclasses
import itertools
from typing import Any

from hypothesis import strategies as st

from pbt import classfactory as CF
from pbt.runtime import Ctx, Labels, Part, require

PROP = "C12"
RULE = (
    "generated class hierarchies (1-3 levels, 0-5 fields per level drawn from property kinds int / "
    "str / bool / int|None and child kinds single / optional / union / variadic tuple / fixed tuple, "
    "overrides of inherited fields keeping the kind but changing default / init / compare, "
    "init=False, compare=False, both, kw_only classes), emitted as module source and exec-ed afresh "
    "for EVERY order of first use among the classes of the hierarchy (<= 6 permutations); per class 3 "
    "instances (all children present / empty tuples and absent optionals / falsy child nodes) and "
    "ALL 2^5 x 2 combinations of (skip_id, skip_origin, skip_content_id, skip_non_compare, "
    "skip_non_init) x sort_keys for get_properties, all 2^5 for the static get_property_fields, "
    "both sort orders for the child accessors (exhaustive per case). Oracle: a field table derived "
    "from the spec (cross-checked with dataclasses.fields): declaration or name order, presence "
    "rule per flag, tuple elements indexed from 0, Field objects identical to the class' own. "
    "non-trivial = depth >= 2 with an override, or a field both init=False and compare=False, or a "
    "falsy child."
)
ASSUMPTIONS = [
    "field table from the generated spec; dataclasses.fields is trusted for declaration order (cross-checked)",
    "all generated fields carry defaults so that any declaration order is a legal dataclass",
]
FLOORS = {"hierarchies:override": 0.1, "hierarchies:noninit-noncompare": 0.1, "hierarchies:levels>=2": 0.3}

PROP_KINDS = {"int": ("int", "3"), "str": ("str", '"s"'), "bool": ("bool", "True"), "optint": ("int | None", "None"),
              "enum": ("Color", "Color.RED"), "fsenum": ("frozenset[Color]", "frozenset()")}
CHILD_KINDS = ["one", "opt", "union", "tuple", "fixed", "aone", "atuple"]
SYSTEM = ("id", "content_id", "origin")


def ann_of(kind: str) -> dict:
    n = lambda x: {"k": "node", "n": x}  # noqa: E731
    if kind in PROP_KINDS:
        if kind == "optint":
            return {"k": "union", "of": [{"k": "scalar", "n": "int"}, {"k": "none"}], "pipe": True}
        if kind == "enum":  # a module-level non-node name (a node class of that name exists in another module)
            return {"k": "enum"}
        if kind == "fsenum":
            return {"k": "frozenset", "of": {"k": "enum"}}
        return {"k": "scalar", "n": kind}
    return {
        "one": n("NodeA"), "opt": {"k": "opt", "of": n("NodeA")},
        # Annotated[...] around a child annotation (metadata that is no str), outside and inside the tuple
        "aone": {"k": "annotated", "of": n("NodeA"), "meta": 1},
        "atuple": {"k": "tuple_var", "of": {"k": "annotated", "of": n("NodeA"), "meta": 2.5}},
        "union": {"k": "union", "of": [n("NodeA"), n("NodeB"), {"k": "none"}], "pipe": True},
        "tuple": {"k": "tuple_var", "of": n("NodeA")}, "fixed": {"k": "tuple_fix", "of": [n("NodeA"), n("NodeB")]},
    }[kind]


def to_classes(spec: dict) -> list[dict]:
    classes = []
    for i, c in enumerate(spec["levels"]):
        fields = []
        for f in c["fields"]:
            kind = f["kind"]
            if kind in PROP_KINDS:
                default = f.get("default") or PROP_KINDS[kind][1]
            else:
                default = "()" if kind in ("tuple", "fixed", "atuple") else "None"
            flags = {}
            if not f.get("init", True):
                flags["init"] = False
            if not f.get("compare", True):
                flags["compare"] = False
            if f.get("kw_only"):
                flags["kw_only"] = True
            if f.get("nohash"):
                flags["hash"] = False  # (an explicit hash=False says nothing about comparison)
            fields.append({"name": f["name"], "ann": ann_of(kind), "default": default, "flags": flags, "kind": kind})
        bases = [f"C{j}" for j in c["bases"]] if c.get("bases") else None
        cd = {"name": f"C{i}", "base": f"C{i - 1}" if i else None, "bases": bases, "fields": fields,
              "kw_only": c.get("kw_only", False)}
        if i == 0 and c.get("plain_mixin") and not c.get("mixin") and fields:
            cd["plain_mixin_names"] = [fields[k % len(fields)]["name"] for k in c["plain_mixin"]]
        if i == 0 and c.get("mixin"):
            cd["mixin_fields"] = [{"name": n, "ann": ann_of(kd), "default": PROP_KINDS[kd][1], "flags": {}, "kind": kd}
                                  for n, kd in c["mixin"]]
        if c.get("redeclare_origin"):
            # a built-in field declared again (new Field object, same name, same place in the field
            # order): it still follows its own skip flag only
            cd["extra"] = "    origin: Origin = field(default=NO_ORIGIN, kw_only=True)\n"
        classes.append(cd)
    return classes


def lineage(classes: list[dict], k: int) -> list[int]:
    """indices of the classes contributing fields to class k, in dataclass (reverse MRO) order"""
    def lin(i: int) -> list[int]:
        c = classes[i]
        bases = [int(b[1:]) for b in c["bases"]] if c.get("bases") else ([i - 1] if c["base"] else [])
        seqs = [lin(b) for b in bases] + [list(bases)]
        out = [i]
        seqs = [s for s in seqs if s]
        while seqs:
            for s in seqs:
                head = s[0]
                if not any(head in t[1:] for t in seqs):
                    break
            out.append(head)
            seqs = [[x for x in t if x != head] for t in seqs]
            seqs = [t for t in seqs if t]
        return out

    return list(reversed(lin(k)))


def effective(classes: list[dict], k: int) -> list[dict]:
    """dataclass semantics: the complete field tables of the bases are merged in reverse MRO order
    (a base contributes its inherited fields too), then the class' own fields; an overriding
    definition keeps the position of the first one."""
    table: dict[str, dict] = {}
    for f in classes[k].get("mixin_fields", []):  # (fields of a plain dataclass listed after the node base come first)
        table[f["name"]] = f
    mro = list(reversed(lineage(classes, k)))  # class itself first
    for b in reversed(mro[1:]):
        for f in effective(classes, b):
            table[f["name"]] = f
    for f in classes[k]["fields"]:
        table[f["name"]] = f
    return list(table.values())


def make_instance(mod: CF.Module, cls: Any, eff: list[dict], variant: int) -> tuple[Any, dict]:
    A, B, S, F = mod.get("NodeA"), mod.get("NodeB"), mod.get("NodeSub"), mod.get("FalsyNode")
    kw: dict = {}
    for j, f in enumerate(eff):
        if not f["flags"].get("init", True):
            continue
        kind = f["kind"]
        if kind in PROP_KINDS:
            color = mod.mod.__dict__["Color"]
            kw[f["name"]] = {"int": 10 + j, "str": f"v{j}", "bool": j % 2 == 0, "optint": None if variant == 1 else j,
                             "enum": color.GREEN, "fsenum": frozenset({color.RED})}[kind]
        elif kind in ("one", "aone"):
            kw[f["name"]] = F(n=j) if variant == 2 else A(n=j)
        elif kind == "opt":
            kw[f["name"]] = None if variant == 1 else (F(n=j) if variant == 2 else S(n=j))
        elif kind == "union":
            kw[f["name"]] = None if variant == 1 else (F(n=j) if variant == 2 else B(n=j))
        elif kind in ("tuple", "atuple"):
            rep = A(n=j)  # (variant 0: one object at two positions of the tuple)
            kw[f["name"]] = () if variant == 1 else ((F(n=j), A(n=j + 1), F(n=j + 2)) if variant == 2 else (rep, S(n=j + 1), rep))
        elif kind == "fixed":
            kw[f["name"]] = (F(n=j), B(n=j)) if variant == 2 else (A(n=j), B(n=j))
    return cls(**kw), kw


def check_class(mod: CF.Module, classes: list[dict], k: int, lab: Labels, first: int = 0) -> list:
    """runs every accessor on class k; returns a structural summary (for cross-order comparison).
    `first`: which accessor is the very first one called on the class (with sort_keys=True): the
    per-class functions are generated by the first call."""
    cls = mod.get(f"C{k}")
    eff = effective(classes, k)
    dc_names = [f.name for f in dataclasses.fields(cls)]
    mixn = [f["name"] for f in classes[0].get("mixin_fields", [])]
    require(dc_names == [*mixn, *SYSTEM, *[f["name"] for f in eff if f["name"] not in mixn]], "harness-field-table",
            f"{dc_names} vs {[f['name'] for f in eff]}")
    lab.tag_if(bool(mixn), "plain-mixin-after-the-node-base")

    def expected_names(flags: tuple) -> list[str]:
        """declaration order = dataclass field order (the built-in fields stand where they are declared)"""
        skip_id, skip_origin, skip_cid, skip_nc, skip_ni = flags
        by = {f["name"]: f for f in eff if f["kind"] in PROP_KINDS}
        out: list[str] = []
        for n in dc_names:
            if n in SYSTEM:
                if not {"id": skip_id, "content_id": skip_cid, "origin": skip_origin}[n]:
                    out.append(n)
            elif n in by:
                f = by[n]
                nc = not f["flags"].get("compare", True)
                ni = not f["flags"].get("init", True)
                if not ((nc and skip_nc) or (ni and skip_ni)):
                    out.append(n)
        return out

    fobj = cls.__dataclass_fields__
    props = [f for f in eff if f["kind"] in PROP_KINDS]
    kids = [f for f in eff if f["kind"] not in PROP_KINDS]
    summary: list = []
    # static accessors
    cf = list(cls.get_child_fields().keys())
    require(len(cf) == len(kids) and all(a is fobj[b["name"]] for a, b in zip(cf, kids)), "get_child_fields",
            f"C{k}: {[f.name for f in cf]} expected {[f['name'] for f in kids]}")
    for flags in itertools.product((False, True), repeat=5):
        skip_id, skip_origin, skip_cid, skip_nc, skip_ni = flags
        exp = expected_names(flags)
        got = list(cls.get_property_fields(skip_id, skip_origin, skip_cid, skip_nc, skip_ni))
        require([g.name for g in got] == exp and all(g is fobj[g.name] for g in got), "get_property_fields",
                f"C{k} flags(id,origin,content_id,non_compare,non_init)={flags}: {[g.name for g in got]} expected {exp}")
        # asking again (also while an earlier answer is only partly consumed) gives the same answer
        partial = iter(cls.get_property_fields(skip_id, skip_origin, skip_cid, skip_nc, skip_ni))
        next(partial, None)
        again = list(cls.get_property_fields(skip_id, skip_origin, skip_cid, skip_nc, skip_ni))
        require([g.name for g in again] == exp, "get_property_fields-asked-again",
                f"C{k} flags={flags}: second answer {[g.name for g in again]} expected {exp}")
        require([g.name for g in partial] == exp[1:], "get_property_fields-asked-again",
                f"C{k} flags={flags}: the partly consumed first answer changed")
    for variant in range(3):
        inst, kw = make_instance(mod, cls, eff, variant)
        val = lambda f: getattr(inst, f["name"])  # noqa: E731
        if variant == 0 and first:
            by_name = sorted(kids, key=lambda f: f["name"])
            if first == 1:
                got_first = [f.name for _, f in inst.iter_child_fields(sort_keys=True)]
                require(got_first == [f["name"] for f in by_name], "iter_child_fields",
                        f"C{k}: the first call ever on the class, with sort_keys=True: {got_first}")
            elif first == 2:
                exp_first = []
                for f in by_name:
                    v = getattr(inst, f["name"])
                    exp_first += list(v) if f["kind"] in ("tuple", "fixed", "atuple") else ([v] if v is not None else [])
                got_n1 = list(inst.get_child_nodes(sort_keys=True))
                require(len(got_n1) == len(exp_first) and all(a is b_ for a, b_ in zip(got_n1, exp_first)), "get_child_nodes",
                        f"C{k}: the first call ever on the class, with sort_keys=True")
            lab.tag(f"first-call-sorted-{first}")
        for sort_keys in (False, True):
            for flags in itertools.product((False, True), repeat=5):
                skip_id, skip_origin, skip_cid, skip_nc, skip_ni = flags
                exp: list = expected_names(flags)
                if sort_keys:
                    exp = sorted(exp)
                got = list(inst.get_properties(skip_id, skip_origin, skip_cid, skip_nc, skip_ni, sort_keys=sort_keys))
                ok = [g[1].name for g in got] == exp and all(
                    g[1] is fobj[g[1].name] and g[0] is getattr(inst, g[1].name) for g in got)
                require(ok, "get_properties",
                        f"C{k} variant {variant} flags(id,origin,content_id,non_compare,non_init)={flags} sort_keys={sort_keys}: "
                        f"{[g[1].name for g in got]} expected {exp}")
                if flags in ((False,) * 5, (True, False, True, False, True)):
                    partial = iter(inst.get_properties(skip_id, skip_origin, skip_cid, skip_nc, skip_ni, sort_keys=sort_keys))
                    next(partial, None)
                    again = list(inst.get_properties(skip_id, skip_origin, skip_cid, skip_nc, skip_ni, sort_keys=sort_keys))
                    require([g[1].name for g in again] == exp and [g[1].name for g in partial] == exp[1:],
                            "get_properties-asked-again", f"C{k} variant {variant} flags={flags} sort_keys={sort_keys}")
                lab.count("flag-combinations")
            ordered = sorted(kids, key=lambda f: f["name"]) if sort_keys else kids
            raw = list(inst.iter_child_fields(sort_keys=sort_keys))
            require([f.name for _, f in raw] == [f["name"] for f in ordered]
                    and all(v is val(f) and fo is fobj[f["name"]] for (v, fo), f in zip(raw, ordered)),
                    "iter_child_fields", f"C{k} variant {variant} sort_keys={sort_keys}: {[f.name for _, f in raw]}")
            partial = iter(inst.iter_child_fields(sort_keys=sort_keys))
            next(partial, None)
            again = list(inst.iter_child_fields(sort_keys=sort_keys))
            require([f.name for _, f in again] == [f["name"] for f in ordered]
                    and [f.name for _, f in partial] == [f["name"] for f in ordered][1:], "iter_child_fields-asked-again",
                    f"C{k} variant {variant} sort_keys={sort_keys}")
            exp_nodes = []
            for f in ordered:
                v = val(f)
                if f["kind"] in ("tuple", "fixed", "atuple"):
                    exp_nodes += [(x, f["name"], i) for i, x in enumerate(v)]
                elif v is not None:
                    exp_nodes.append((v, f["name"], None))
            got_wf = list(inst.get_child_nodes_with_field(sort_keys=sort_keys))
            require(len(got_wf) == len(exp_nodes) and all(
                g[0] is e[0] and g[1] is fobj[e[1]] and g[2] == e[2] for g, e in zip(got_wf, exp_nodes)),
                "get_child_nodes_with_field",
                f"C{k} variant {variant} sort_keys={sort_keys}: {[(g[1].name, g[2]) for g in got_wf]} expected {[(e[1], e[2]) for e in exp_nodes]}")
            partial = iter(inst.get_child_nodes_with_field(sort_keys=sort_keys))
            next(partial, None)
            again = list(inst.get_child_nodes_with_field(sort_keys=sort_keys))
            require(len(again) == len(exp_nodes) and all(g[0] is e[0] for g, e in zip(again, exp_nodes))
                    and [id(g[0]) for g in partial] == [id(e[0]) for e in exp_nodes[1:]],
                    "get_child_nodes_with_field-asked-again", f"C{k} variant {variant} sort_keys={sort_keys}")
            got_n = list(inst.get_child_nodes(sort_keys=sort_keys))
            require(len(got_n) == len(exp_nodes) and all(g is e[0] for g, e in zip(got_n, exp_nodes)), "get_child_nodes",
                    f"C{k} variant {variant} sort_keys={sort_keys}: {len(got_n)} nodes, expected {len(exp_nodes)}")
            if not sort_keys:
                ch = inst.children
                require(len(ch) == len(exp_nodes) and all(g is e[0] for g, e in zip(ch, exp_nodes)), "children", f"C{k} variant {variant}")
                # the list belongs to the caller: changing it changes nothing for anybody else
                ch.append(inst)
                ch.reverse()
                ch2 = inst.children
                require(len(ch2) == len(exp_nodes) and all(g is e[0] for g, e in zip(ch2, exp_nodes)), "children-after-caller-changed-its-list",
                        f"C{k} variant {variant}: {len(ch2)} nodes, expected {len(exp_nodes)}")
                other_leaf = mod.get("NodeB")(n=77)
                require(other_leaf.children == [], "children-after-caller-changed-its-list", "another (childless) node")
        pd = inst.to_properties_dict()
        require(list(pd.keys()) == [f["name"] for f in props] and all(pd[f["name"]] is val(f) for f in props),
                "to_properties_dict", f"C{k} variant {variant}: {list(pd.keys())}")
        summary.append((k, variant, [f.name for _, f in inst.get_properties(False, False, False)],
                        [(f.name, i) for _, f, i in inst.get_child_nodes_with_field()]))
    return summary


def redefined(classes: list[dict]) -> list[dict]:
    """same class and field names; per class the own fields in reverse order, compare / init flags
    flipped on properties (kinds kept, so overrides stay legal)"""
    out = []
    for c in classes:
        fs = []
        for f in reversed(c["fields"]):
            g = dict(f)
            flags = dict(f.get("flags", {}))
            if f["kind"] in PROP_KINDS:
                if "compare" in flags:
                    flags.pop("compare")
                else:
                    flags["compare"] = False
            g["flags"] = flags
            fs.append(g)
        out.append({**c, "fields": fs})
    return out


def check_hierarchy(data: dict, lab: Labels) -> None:
    classes = to_classes(data)
    n = len(classes)
    names: set[str] = set()
    override = False
    for c in classes:
        for f in c["fields"]:
            override = override or f["name"] in names
            names.add(f["name"])
    both = any(not f["flags"].get("init", True) and not f["flags"].get("compare", True) for c in classes for f in c["fields"])
    lab.tag_if(override, "override")
    lab.tag_if(both, "noninit-noncompare")
    lab.tag_if(n >= 2, "levels>=2")
    lab.tag_if(any(c.get("kw_only") for c in classes), "kw_only")
    lab.tag_if(any(c.get("extra") for c in classes), "origin-redeclared")
    lab.tag_if(any(c.get("bases") and len(c["bases"]) > 1 for c in classes), "multiple-inheritance")
    lab.nontrivial = (n >= 2 and override) or both or any(f["kind"] not in PROP_KINDS for c in classes for f in c["fields"])
    if data.get("redefine"):
        # the same class statements executed a second time with other field definitions (same module
        # name, same class names - legal, the registry allows it): the second definitions must be
        # served from their own field tables
        lab.tag("redefinition")
        uid = CF.new_uid()
        classes2 = redefined(classes)
        m1 = CF.build(classes, postponed=bool(data.get("postponed")), uid=uid)
        m2 = None
        try:
            if m1.error is not None:
                raise m1.error
            for k in range(n):
                check_class(m1, classes, k, lab)
            m2 = CF.build(classes2, postponed=bool(data.get("postponed")), uid=uid)
            if m2.error is not None:
                raise m2.error
            for k in range(n):
                check_class(m2, classes2, k, lab)
        finally:
            m1.close()
            if m2 is not None:
                m2.close()
    orders = list(itertools.permutations(range(n)))
    if len(orders) > 6:  # 4 classes: combining class first / last, base first / last, two mixed orders
        orders = [(0, 1, 2, 3), (3, 2, 1, 0), (3, 0, 1, 2), (1, 3, 2, 0), (2, 1, 3, 0), (1, 2, 0, 3)]
    first_summary = None
    for order in orders:
        mod = CF.build(classes, postponed=bool(data.get("postponed")))
        try:
            if mod.error is not None:
                raise mod.error
            summ = []
            for k in order:
                summ.extend(check_class(mod, classes, k, lab, first=(sum(order[:2]) + len(orders) + k) % 3))
            summ.sort(key=lambda t: (t[0], t[1]))
            if first_summary is None:
                first_summary = summ
            else:
                require(summ == first_summary, "depends-on-first-use-order", f"order {order}")
        finally:
            mod.close()
        lab.count("first-use-orders")


def st_hierarchy(ctx: Ctx):
    kinds = st.sampled_from([*PROP_KINDS, *CHILD_KINDS, "int", "one", "tuple"])
    flags = st.sampled_from([(True, True), (True, True), (False, True), (True, False), (False, False), (False, False)])

    def field(name):
        return st.tuples(kinds, flags, st.booleans(), st.sampled_from([False, False, False, True])).map(
            lambda t: {"name": name, "kind": t[0], "init": t[1][0], "compare": t[1][1], "kw_only": t[2] and t[1][0],
                       "nohash": t[3]})

    names = ["a", "b", "c", "d", "e", "f", "zz", "Ab", "_raw", "_", "o", "i", "self", "node", "non_compare", "non_init", "A1"]  # (underscore-prefixed names are fields like any other)

    def level():
        return st.lists(st.sampled_from(names), max_size=5, unique=True).flatmap(
            lambda ns: st.tuples(*[field(n) for n in ns]).map(list) if ns else st.just([]))

    def fix(levels: list[list[dict]], kws: list[bool], postponed: bool, diamond: bool = False, redefine: bool = False) -> dict:
        # an override keeps the kind of the field it overrides
        kind_of: dict[str, str] = {}
        out = []
        for fs, kw in zip(levels, kws):
            lv = []
            for f in fs:
                f = dict(f)
                if f["name"] in kind_of:
                    f["kind"] = kind_of[f["name"]]
                    f["default"] = {"int": "99", "str": '"over"', "bool": "False", "optint": "5"}.get(f["kind"])
                kind_of[f["name"]] = f["kind"]
                lv.append(f)
            out.append({"fields": lv, "kw_only": kw})
        if diamond and len(out) == 3:
            # C0 <- C1, C0 <- C2, C3(C1, C2): the last class combines two bases (often with no own fields)
            out[2]["bases"] = [0]
            out.append({"fields": [], "kw_only": False, "bases": [1, 2]})
        return {"levels": out, "postponed": postponed, "redefine": redefine}

    def with_origin(t: tuple) -> dict:
        d, k, mix = t
        if k is not None:
            d["levels"][k % len(d["levels"])]["redeclare_origin"] = True
        if mix and not d["levels"][0].get("bases"):
            d["levels"][0]["mixin"] = mix
        elif mix is None and k is not None and k % 2 and not d["levels"][0].get("bases"):
            d["levels"][0]["plain_mixin"] = [k, k + 1]
        return d

    mixin = st.one_of(st.none(), st.none(), st.none(),
                      st.lists(st.sampled_from(["int", "str", "bool"]), min_size=1, max_size=2).map(
                          lambda ks: [[f"m{i}", kd] for i, kd in enumerate(ks)]))
    return st.tuples(_base(fix, level), st.one_of(st.none(), st.none(), st.integers(0, 3)), mixin).map(with_origin)


def _base(fix, level):  # noqa: ANN001
    return st.tuples(st.one_of(st.lists(level(), min_size=2, max_size=3), st.lists(level(), min_size=1, max_size=3)), st.lists(st.booleans(), min_size=3, max_size=3),
                     st.booleans(), st.booleans(), st.sampled_from([False, False, True])).map(lambda t: fix(t[0], t[1], t[2], t[3], t[4]))


PARTS = [Part("hierarchies", check_hierarchy, strategy=st_hierarchy, quick=800, thorough=40000)]
