"""C10 — no operation ever modifies an existing node."""
from __future__ import annotations

import dataclasses
import io
from typing import Any

from hypothesis import strategies as st

from pbt import frame
from pbt import models_v2 as M
from pbt import origins as og
from pbt import trees as T
from pbt.props import c09
from pbt.runtime import Ctx, Labels, Part, require

PROP = "C10"
RULE = (
    "programs of up to 30 operations over a pool of trees built from two Hypothesis tree specs "
    "(shared subtrees, detached members, twins): traversals with predicates, Tree queries, xpath "
    "find/findall/match, NodeMatcher / MultiPatternMatcher matching, visitors and transformers "
    "(incl. raising rules), duplicate, ASTNode.replace ok and failing, dataclasses.replace, detach, "
    "detach_self, every to_*/from_*/as_dict/as_obj with option subsets (incl. re-creating detached "
    "trees with forced ids), ==, !=, hash, is_equal, property accessors, rich rendering, and "
    "setattr/delattr on every dataclass field (must raise). After every step the frame snapshot "
    "(object, type, hash, id, content_id, identity of every child / origin, typed value of every "
    "property) of every node that existed before the step must be unchanged, and its registry "
    "membership may change only for the receiver (and descendants) of detach / detach_self / replace. "
    "deser_frame: a tree is serialized, a drawn subset of its nodes is unregistered node by node, "
    "and it is read back in one of the four formats; frame and membership of every original node "
    "must be unchanged. crowded: at one-byte ids a tree is written and dropped, up to 300 unrelated "
    "leaves are created (taking over ids the payload names), the payload is read back; frame and "
    "membership of the crowd and of the dropped nodes must be unchanged. non-trivial = >= 3 distinct operation families incl. one that creates nodes "
    "(programs) / a proper non-empty subset unregistered (deser_frame) / a payload id held by a node of another class (crowded)."
)
ASSUMPTIONS = [
    "the snapshot of pbt/frame.py observes every dataclass field, id, content_id and hash; __dict__-level additions (caches) would not be seen",
]
FLOORS = {"programs:NONTRIVIAL": 0.5}

XPATHS = ["//LeafA", "/Mixed/@items[1]LeafA", "//@child Base", "//@items[0]", "LeafB", "//Mixed//LeafA",
          "/Uni/@one", "//@pair[1]LeafB", "/@items[2]", "//Seq/@items[]Base", "//SubLeafA", "/Base"]
XPATHS = [x if x.rstrip()[-1].isalpha() else x + "Base" for x in XPATHS]
PATTERNS = ['(LeafA @v="1")', "(Mixed @items=[(LeafA) -> a *])", "(* @child=(LeafA) -> c)", "(Uni @one -> o)",
            "(LeafA | LeafB @v -> val)", "(Mixed @items=[])", "(Mixed @child=None)", '(Strs @a="a" @b -> b)',
            "(Seq @pair=[(LeafA) (LeafB)])", "(InhMixed @more=[(*) -> first *])", "(* @nope)"]
FAMILIES_CREATING = {"duplicate", "replace", "dc_replace", "transform", "ser", "ser_drop", "suffix_payload", "suffix_twins"}


class Machine:
    def __init__(self, data: dict, lab: Labels) -> None:
        self.lab = lab
        self.sources = og.make_sources()
        self.roots: list[Any] = []
        for spec in data["trees"]:
            root_e, _ = T.expand(spec)
            self.roots.append(T.Built(root_e, self.sources).root)
        self.snap = frame.Snapshot([n for r in self.roots for n in T.live_nodes(r)])
        self.step_no = 0
        self.families: set[str] = set()

    def root(self, r: int) -> Any:
        return self.roots[r % len(self.roots)]

    def node(self, r: int, n: int) -> Any:
        if r == -1 and getattr(self, "last_node", None) is not None:
            return self.last_node  # "the node the previous operation acted on"
        ns = T.live_nodes(self.root(r))
        if n >= 1000:  # prefer a node holding a child in a union-typed field
            un = [x for x in ns if getattr(x, "un", None) is not None]
            ns = un or ns
        self.last_node = ns[n % len(ns)]
        return self.last_node

    def membership(self) -> dict[int, bool]:
        from pyoak.node import ASTNode

        return {id(n): ASTNode.get_any(n.id) is n for n in self.snap.nodes}

    def step(self, o: list) -> None:
        from pyoak.node import ASTNode

        self.step_no += 1
        before = self.membership()
        allowed_leave: set[int] = set()
        new_roots: list[Any] = []
        kind = o[0]
        self.families.add(kind)
        self.lab.tag(kind)
        self._do(o, allowed_leave, new_roots)
        d = self.snap.diff()
        require(d is None, "existing-node-modified", f"step {self.step_no} {kind}: {d}")
        after = self.membership()
        for k, was in before.items():
            now = after[k]
            if was and not now:
                require(k in allowed_leave, "registry-membership-changed",
                        f"step {self.step_no} {kind}: an existing registered node was unregistered")
            if now and not was:
                require(False, "registry-membership-changed",
                        f"step {self.step_no} {kind}: an existing unregistered node was registered")
        for r in new_roots:
            if isinstance(r, ASTNode):
                self.roots.append(r)
                self.snap.add(T.live_nodes(r))

    # -------------------------------------------------------------------------------- ops
    def _do(self, o: list, allowed_leave: set[int], new_roots: list) -> None:
        from pyoak import config
        from pyoak.error import InvalidTypes
        from pyoak.match.error import ASTPatternDefinitionError, ASTXpathDefinitionError
        from pyoak.match.pattern import MultiPatternMatcher, NodeMatcher
        from pyoak.match.xpath import ASTXpath
        from pyoak.node import ASTNode, ASTSerializationDialects
        from pyoak.serialize import SerializationOption
        from pyoak.tree import Tree

        kind = o[0]
        if kind == "traverse":
            r = self.root(o[1])
            pm, fm = o[3], o[4]
            prune = (lambda i: bool(pm >> (hash(i.node.content_id) % 7) & 1)) if o[2] % 2 else None
            flt = (lambda i: bool(fm >> (hash(i.node.content_id) % 7) & 1)) if o[2] % 3 else None
            list(r.dfs(prune=prune, filter=flt))
            list(r.dfs(prune=prune, filter=flt, bottom_up=True))
            list(r.bfs(prune=prune, filter=flt))
            list(r.gather((M.cls("LeafA"), M.cls("Mixed")), exact_type=bool(o[2] % 2), prune=prune))
            _ = r.children
            list(r.get_child_nodes(sort_keys=True))
            list(r.get_child_nodes_with_field())
            list(r.iter_child_fields(sort_keys=bool(o[2] % 2)))
        elif kind == "tree":
            r = self.root(o[1])
            t = Tree(r)
            ns = T.live_nodes(r)
            for n in ns[:20]:
                if not t.is_in_tree(n):
                    continue
                t.get_parent(n), t.get_parent_info(n), list(t.get_ancestors(n)), t.get_depth(n)
                t.get_xpath(n), t.is_root(n), t.is_ancestor(n, r)
                t.get_first_ancestor_of_type(n, M.cls("Mixed"))
        elif kind == "xpath":
            r = self.root(o[1])
            xp = XPATHS[o[2] % len(XPATHS)]
            try:
                x = ASTXpath(xp)
                found = list(x.findall(r))
                r.find(xp)
                list(r.findall(xp))
                ns = T.live_nodes(r)
                if len({id(n) for n in ns}) == len(ns):  # match() needs a tree without repeated objects
                    for n in ns[:10]:
                        x.match(r, n)
                del found
            except ASTXpathDefinitionError:
                self.lab.tag("xpath-definition-error")
        elif kind == "pattern":
            n = self.node(o[1], o[2])
            pats = [PATTERNS[(o[3] + k) % len(PATTERNS)] for k in range(3)]
            try:
                m, _msg = NodeMatcher.from_pattern(pats[0])
                if m is not None:
                    m.match(n)
                    m.match(self.root(o[1]))
                mm = MultiPatternMatcher([(f"r{k}", p) for k, p in enumerate(pats)])
                mm.match(n)
                mm.match(self.root(o[1]), rules=["r2", "r0"])
            except ASTPatternDefinitionError:
                self.lab.tag("pattern-definition-error")
        elif kind == "transform":
            r = self.root(o[1])
            root_ids = {id(n): True for n in T.live_nodes(r)}
            rules = {c09.RULE_CLASSES[i % len(c09.RULE_CLASSES)]: a for i, a in o[2]}
            removable = {k: False for k in root_ids}
            # removal only where it is safe: elements of variadic tuples
            for n in T.live_nodes(r):
                for c, fn, i in T.live_children(n):
                    if i is not None and fn in ("items", "more"):
                        removable.setdefault(id(c), True)
                        removable[id(c)] = removable[id(c)] or True
                    else:
                        removable[id(c)] = False
            for n in T.live_nodes(r):
                for c, fn, i in T.live_children(n):
                    if i is None or fn not in ("items", "more"):
                        removable[id(c)] = False
            tr = c09.make_transformer(rules, bool(o[3]), removable, [], self.sources)
            try:
                res = tr.transform(r)
                if res is not None and res is not r:
                    new_roots.append(res)
            except c09.RuleError:
                self.lab.tag("transform-raised")
        elif kind == "transform_fail":
            # every second visited node is rewritten (so its ancestors are rebuilt around shared
            # original siblings), then the visitor fails at a drawn later node
            from pyoak.visitor import ASTTransformVisitor

            r = self.root(o[1])
            k = 1 + o[2] % max(1, len(T.live_nodes(r)))
            cnt = [0]
            srcs = self.sources

            class FailLate(ASTTransformVisitor):
                def generic_visit(self, node):  # noqa: ANN001
                    new = super().generic_visit(node)
                    cnt[0] += 1
                    if cnt[0] > k:
                        raise c09.RuleError(0)
                    if cnt[0] % 2 == 0:
                        return dataclasses.replace(new, origin=og.build_origin(["gen", cnt[0] % 3], srcs))
                    return new

            try:
                FailLate().transform(r)
            except c09.RuleError:
                self.lab.tag("transform-raised-late")
        elif kind == "duplicate":
            new_roots.append(self.node(o[1], o[2]).duplicate())
        elif kind in ("replace", "dc_replace"):
            x = self.node(o[1], o[2])
            change = {"origin": og.build_origin([["code", 1, 2, 5], ["gen", 2], ["no"]][o[3] % 3], self.sources)}
            if any(f.name == "v" for f in dataclasses.fields(x)) and o[3] % 2:
                change = {"v": 7 + o[3]}
            if kind == "replace":
                allowed_leave.add(id(x))
                new_roots.append(x.replace(**change))
            else:
                new_roots.append(dataclasses.replace(x, **change))
        elif kind == "replace_fail":
            x = self.node(o[1], o[2])
            try:
                if o[3] % 3 == 0:
                    x.replace(no_such_field=1)
                elif o[3] % 3 == 1:
                    x.replace(content_id="forced")
                else:
                    config.RUNTIME_TYPE_CHECK = True
                    try:
                        x.replace(origin=3)
                    finally:
                        config.RUNTIME_TYPE_CHECK = False
                require(False, "replace-should-fail", f"step {self.step_no}")
            except (TypeError, ValueError, InvalidTypes):
                pass
        elif kind == "detach":
            x = self.node(o[1], o[2])
            allowed_leave.update(id(n) for n in T.live_nodes(x))
            x.detach()
        elif kind == "detach_self":
            x = self.node(o[1], o[2])
            allowed_leave.add(id(x))
            x.detach_self()
        elif kind in ("ser", "ser_drop"):
            x = self.node(o[1], o[2]) if kind == "ser" else self.root(o[1])
            opts: dict = {}
            if o[4] & 1:
                opts[SerializationOption.SORT_KEYS] = True
            if o[4] & 2:
                opts[SerializationOption.SKIP_CLASS] = True
            if o[4] & 4:
                opts["ast_serialize_dialect"] = ASTSerializationDialects.AST_EXPLORER
            if o[4] & 8:
                opts["ast_serialize_dialect"] = ASTSerializationDialects.AST_TEST
            fmt = o[3] % 4
            # output with arbitrary options is produced and discarded
            x.as_dict(serialization_options=opts or None)
            x.to_json(serialization_options=opts or None)
            x.to_msgpck(serialization_options=opts or None)
            x.to_yaml(serialization_options=opts or None)
            ropts = {SerializationOption.SORT_KEYS: True} if o[4] & 1 else None
            payload: Any
            if fmt == 0:
                payload = x.as_dict(serialization_options=ropts)
            elif fmt == 1:
                payload = x.to_json(serialization_options=ropts)
            elif fmt == 2:
                payload = x.to_msgpck(serialization_options=ropts)
            else:
                payload = x.to_yaml(serialization_options=ropts)
            if ASTNode.get_any(x.id) is not x:
                self.lab.tag("ser-of-unregistered-node")
                if any(fn == "un" and ASTNode.get_any(c.id) is c and type(c).__name__ == "LeafB"
                       for c, fn, _ in T.live_children(x)):
                    self.lab.tag("ser-unregistered-parent-registered-union-child")
            if kind == "ser_drop":
                allowed_leave.update(id(n) for n in T.live_nodes(x))
                x.detach()
                self.lab.tag("recreate-with-forced-ids")
            cls = type(x)
            res = (cls.as_obj(payload) if fmt == 0 else cls.from_json(payload) if fmt == 1
                   else cls.from_msgpck(payload) if fmt == 2 else cls.from_yaml(payload))
            new_roots.append(res)
        elif kind == "origin_merge":
            from pyoak.origin import concat_origins, merge_origins

            a, b = self.node(o[1], o[2]), self.node(o[3], o[4])
            extra = og.build_origin(["code", 2, 1, 3], self.sources)
            _ = a.origin + b.origin
            _ = b.origin + a.origin
            _ = merge_origins(a.origin, b.origin, extra)
            _ = merge_origins(a.origin, extra)
            _ = concat_origins(a.origin, extra, b.origin)
            _ = a.origin + extra
        elif kind == "compare":
            a, b = self.node(o[1], o[2]), self.node(o[3], o[4])
            _ = (a == b, a != b, b == a, hash(a), hash(b), a.is_equal(b), a == 1, a != None)  # noqa: E711
            _ = {a: 1, b: 2}
        elif kind == "props":
            x = self.node(o[1], o[2])
            for flags in ((False,) * 5, (True,) * 5, (True, False, True, False, True)):
                list(x.get_properties(*flags, sort_keys=bool(o[3] % 2)))
                list(type(x).get_property_fields(*flags))
            x.to_properties_dict()
            type(x).get_child_fields()
            repr(x)
            str(x.origin)
        elif kind == "pycopy":
            # the copy / pickle protocols: the copies are new objects of their own, the originals stay what
            # and where they are (the copies are kept alive until the step has been checked)
            import copy
            import pickle

            x = self.node(o[1], o[2])
            how = o[3] % 3
            try:
                cp = copy.copy(x) if how == 0 else (copy.deepcopy(x) if how == 1 else pickle.loads(pickle.dumps(x)))
            except (pickle.PicklingError, AttributeError, TypeError):
                cp = None  # (classes made inside functions cannot be pickled: Python's limitation)
            self.copies = getattr(self, "copies", [])
            self.copies.append(cp)
            self.lab.tag("copy-protocol" if cp is not None else "copy-protocol-not-picklable")
        elif kind == "rich":
            from rich.console import Console

            Console(file=io.StringIO(), width=100).print(self.node(o[1], o[2]))
        elif kind == "setattr":
            x = self.node(o[1], o[2])
            for f in dataclasses.fields(x):
                for fn in (lambda: setattr(x, f.name, getattr(x, f.name)), lambda: setattr(x, f.name, None),
                           lambda: delattr(x, f.name), lambda: object.__getattribute__(x, "__setattr__")(f.name, 1)):
                    try:
                        fn()
                        require(False, "assignment-did-not-raise", f"{type(x).__name__}.{f.name}")
                    except (dataclasses.FrozenInstanceError, AttributeError, TypeError):
                        pass
            try:
                x.brand_new_attribute = 1
                require(False, "assignment-did-not-raise", f"{type(x).__name__}.brand_new_attribute")
            except (dataclasses.FrozenInstanceError, AttributeError, TypeError):
                pass
        elif kind == "suffix_payload":
            # a payload written elsewhere (another session): its id carries a collision suffix this
            # process has not handed out itself; the node read from it is an existing node like any other
            leaf = M.cls("LeafA")(v=500 + o[1])
            payload = leaf.as_dict()
            leaf.detach_self()
            del leaf
            payload["id"] = f"{payload['id'].split('_')[0]}_{1 + o[2] % 3}"
            res = ASTNode.as_obj(payload) if o[2] % 2 else M.cls("LeafA").as_obj(payload)
            self.suffix_v = 500 + o[1]
            new_roots.append(res)
        elif kind == "suffix_twins":
            v = getattr(self, "suffix_v", None)
            if v is None:
                return
            for _ in range(2 + o[1] % 3):
                new_roots.append(M.cls("LeafA")(v=v))
            self.lab.tag("twins-of-a-node-read-with-a-foreign-suffix")
        elif kind == "digest":
            # the digest length is a process-wide setting a user may change between two parser runs:
            # nodes made earlier keep the ids and content ids they were given
            config.ID_DIGEST_SIZE = [4, 16, 8, 2][o[1] % 4]
        else:
            raise ValueError(kind)


def check_program(data: dict, lab: Labels) -> None:
    m = Machine(data, lab)
    for o in data["ops"]:
        m.step(o)
    lab.count("steps", len(data["ops"]))
    lab.nontrivial = len(m.families) >= 3 and bool(m.families & FAMILIES_CREATING)


def st_program(ctx: Ctx):
    g = T.TreeGen(leaves=ctx.pick(7, 10), origin_rate=0.25, detach_rate=0.06, servals=True, frozensets=False,
                  extra_leaves=("Meta", "Meta"))
    s = st.integers(0, 60)
    small = st.integers(0, 15)
    action = st.tuples(st.sampled_from(["keep", "clone", "rewrite", "replace", "remove", "raise", "raise_nth", "raise_nth"]), small).map(list)
    rule = st.tuples(st.integers(0, len(c09.RULE_CLASSES) - 1), action).map(list)
    ops = [
        st.tuples(st.just("traverse"), s, small, st.integers(0, 127), st.integers(0, 127)),
        st.tuples(st.just("tree"), s),
        st.tuples(st.just("xpath"), s, small),
        st.tuples(st.just("pattern"), s, s, small),
        st.tuples(st.just("transform"), s, st.lists(rule, min_size=1, max_size=3), st.booleans()),
        st.tuples(st.just("duplicate"), s, s),
        st.tuples(st.just("transform_fail"), s, s),
        st.tuples(st.just("replace"), s, s, small),
        st.tuples(st.just("dc_replace"), s, s, small),
        st.tuples(st.just("replace_fail"), s, s, small),
        st.tuples(st.just("detach"), s, s),
        st.tuples(st.just("detach_self"), s, s),
        st.tuples(st.just("ser"), s, s, small, small),
        st.tuples(st.just("ser"), s, s, small, small),
        st.tuples(st.just("ser_drop"), s, st.just(0), small, small),
        st.tuples(st.just("compare"), s, s, s, s),
        st.tuples(st.just("origin_merge"), s, s, s, s),
        st.tuples(st.just("props"), s, s, small),
        st.tuples(st.just("rich"), s, s),
        st.tuples(st.just("pycopy"), s, s, small),
        st.tuples(st.just("setattr"), s, s),
        st.tuples(st.just("digest"), small),
    ]
    op = st.one_of(*ops).map(lambda o: [list(o)])
    # macro: unregister a node (not its children), then round-trip / duplicate / replace that same node
    follow = st.one_of(
        st.tuples(st.just("ser"), st.just(-1), st.just(0), small, st.sampled_from([0, 1])),
        st.tuples(st.just("duplicate"), st.just(-1), st.just(0)),
        st.tuples(st.just("replace"), st.just(-1), st.just(0), small),
        st.tuples(st.just("replace_fail"), st.just(-1), st.just(0), small),
    )
    macro = st.tuples(st.sampled_from(["detach_self", "detach_self", "detach"]), s, st.one_of(s, s.map(lambda v: v + 1000)), follow).map(
        lambda t: [[t[0], t[1], t[2]], list(t[3])])
    suffix = st.tuples(small, small, small).map(lambda t: [["suffix_payload", t[0], t[1]], ["suffix_twins", t[2]]])
    step = st.one_of(op, op, op, op, op, macro, suffix)
    return st.fixed_dictionaries(
        {
            "trees": st.lists(st.one_of(g.inner_tree(), g.tree()), min_size=2, max_size=2),
            "ops": st.lists(step, min_size=4, max_size=ctx.pick(18, 26)).map(lambda ss: [o for x in ss for o in x][:30]),
        }
    )


def check_deser_frame(data: dict, lab: Labels) -> None:
    """serialize a tree, unregister a drawn subset of its nodes (each node on its own), read it
    back: nodes that stayed registered must come back as themselves and nothing existing may change."""
    from pyoak.node import ASTNode

    b, root_e, ex = T.build(data["tree"])
    root = b.root
    nodes = T.nodes_preorder(root_e)
    fmt = data["fmt"] % 4
    payload: Any = (root.as_dict() if fmt == 0 else root.to_json() if fmt == 1 else root.to_msgpck()
                    if fmt == 2 else root.to_yaml())
    live = list({id(b.of(e)): b.of(e) for e in nodes}.values())
    mask = data["mask"] | 1  # the root is always unregistered, so that deserialization descends
    gone = 0
    for i, n in enumerate(live):
        if mask >> (i % 40) & 1:
            n.detach_self()
            gone += 1
    lab.tag_if(0 < gone < len(live), "partial-alive-set")
    snap = frame.Snapshot(live)
    before = {id(n): ASTNode.get_any(n.id) is n for n in live}
    has_union = any(fn == "un" and before[id(c)] and not before[id(p)] and type(c).__name__ == "LeafB"
                    for p in live for c, fn, _ in T.live_children(p))
    lab.tag_if(has_union, "registered-second-alternative-under-unregistered-parent")
    cls = type(root)
    res = (cls.as_obj(payload) if fmt == 0 else cls.from_json(payload) if fmt == 1
           else cls.from_msgpck(payload) if fmt == 2 else cls.from_yaml(payload))
    d = snap.diff()
    require(d is None, "existing-node-modified", f"deserialization: {d}")
    for n in live:
        require((ASTNode.get_any(n.id) is n) == before[id(n)], "registry-membership-changed",
                f"deserialization changed the registry membership of an existing {type(n).__name__} "
                f"(was registered: {before[id(n)]})")
    require(res is not None, "deser-result", "")
    lab.nontrivial = 0 < gone < len(live)


def st_deser_frame(ctx: Ctx):
    g = T.TreeGen(leaves=ctx.pick(8, 12), origin_rate=0.25, servals=True, frozensets=False)
    return st.fixed_dictionaries({"tree": st.one_of(g.inner_tree(), g.inner_tree(), g.tree()),
                                  "mask": st.integers(0, 2**40 - 1), "fmt": st.integers(0, 3)})


def check_crowded(data: dict, lab: Labels) -> None:
    """one-byte ids: a tree is written and dropped, a crowd of unrelated nodes is created (taking over
    most of the 256 ids, among them ids the payload names), the payload is read back: none of the
    crowd may change or lose / gain its registry entry, whatever deserialization makes of the clash."""
    from pyoak import config
    from pyoak.node import ASTNode

    config.ID_DIGEST_SIZE = 1
    b, root_e, ex = T.build(data["tree"])
    root = b.root
    fmt = data["fmt"] % 4
    payload: Any = (root.as_dict() if fmt == 0 else root.to_json() if fmt == 1 else root.to_msgpck()
                    if fmt == 2 else root.to_yaml())
    named = {n.id: type(n).__name__ for n in T.live_nodes(root)}
    if data["drop"] % 4:
        root.detach()
    else:
        for n in T.live_nodes(root)[:: 1 + data["drop"] % 3]:
            n.detach_self()
    crowd = [M.cls(["LeafA", "LeafB", "SubLeafA", "LeafA"][k % 4])(v=data["base"] + k) for k in range(data["crowd"])]
    if data["crowd_detach"]:
        for n in crowd[:: data["crowd_detach"] + 1]:
            n.detach_self()
    clash_other = sum(1 for n in crowd if ASTNode.get_any(n.id) is n and n.id in named and named[n.id] != type(n).__name__)
    clash_same = sum(1 for n in crowd if ASTNode.get_any(n.id) is n and n.id in named and named[n.id] == type(n).__name__)
    lab.tag_if(clash_other > 0, "payload-id-held-by-node-of-another-class")
    lab.tag_if(clash_same > 0, "payload-id-held-by-node-of-the-same-class")
    lab.tag_if(named.get(root.id) is not None and any(n.id == root.id and ASTNode.get_any(n.id) is n for n in crowd),
               "payload-root-id-held")
    existing = crowd + T.live_nodes(root)
    existing = list({id(n): n for n in existing}.values())
    snap = frame.Snapshot(existing)
    before = {id(n): ASTNode.get_any(n.id) is n for n in existing}
    cls = type(root)
    try:
        (cls.as_obj(payload) if fmt == 0 else cls.from_json(payload) if fmt == 1
         else cls.from_msgpck(payload) if fmt == 2 else cls.from_yaml(payload))
        lab.tag("read")
    except Exception as exc:  # a clash may make the payload unreadable; the property is about the bystanders
        lab.tag("rejected:" + type(exc).__name__)
    d = snap.diff()
    require(d is None, "existing-node-modified", f"deserialization into a crowded registry: {d}")
    for n in existing:
        require((ASTNode.get_any(n.id) is n) == before[id(n)], "registry-membership-changed",
                f"deserialization into a crowded registry changed the membership of an existing "
                f"{type(n).__name__} (was registered: {before[id(n)]})")
    lab.nontrivial = clash_other > 0


def st_crowded(ctx: Ctx):
    g = T.TreeGen(leaves=ctx.pick(5, 8), origin_rate=0.2, servals=True, frozensets=False)
    return st.fixed_dictionaries({"tree": st.one_of(g.inner_tree(), g.tree()), "fmt": st.integers(0, 3),
                                  "drop": st.integers(0, 11), "crowd": st.one_of(st.integers(1, 300), st.integers(200, 400)), "base": st.integers(0, 10**6),
                                  "crowd_detach": st.sampled_from([0, 0, 0, 1, 3])})


PARTS = [
    Part("crowded", check_crowded, strategy=st_crowded, quick=1200, thorough=40000),
    Part("programs", check_program, strategy=st_program, quick=6000, thorough=200000),
    Part("deser_frame", check_deser_frame, strategy=st_deser_frame, quick=4800, thorough=160000),
]
