"""C01 — content_id / is_equal is exactly structural content equality."""
from __future__ import annotations

import copy
import json
import os
from typing import Any

from hypothesis import strategies as st

from pbt import models_v2 as M
from pbt import trees as T
from pbt.runtime import Ctx, Labels, Part, Violation, require

PROP = "C01"
RULE = (
    "pairs: a Hypothesis tree spec s over the v2 universe plus one of 15 named mutations gives "
    "s' (identical rebuild, origins only, non-comparable only, one comparable value, type only "
    "(1->True, (1,)->(True,), '1'->1), frozenset element order, swap of two tuple children, move "
    "between same-initial optional fields, drop/add optional child, sibling class, last character "
    "of a 1-300 char string, falsy child swap, digest-framing shift between adjacent string fields); "
    "both trees are built in one registry (either order, digest size 8 or 16) and "
    "content_id(x)==content_id(y) <=> reference key equal, is_equal <=> same class and key equal, "
    "for the roots and for every pair of nodes of the two trees via two maps id->key, key->id "
    "that must stay functions; the maps persist over all cases of a shard (pool partition). "
    "Strings are drawn from plain values and from concatenations of the digest's own framing tokens. "
    "xproc: the same spec is built in two worker processes with other PYTHONHASHSEEDs and permuted "
    "field declaration order; all content ids must agree. reloaded: a tree is written under one "
    "digest width (1..64), dropped, optionally one int property of the payload is edited, and read "
    "back (as_obj on the class / on ASTNode / from_json) under the same or another width; every node "
    "read must carry the content_id of the same content built by hand. non-trivial = the mutation applied and "
    "the two specs differ; distinct = distinct canonical (spec, mutation) data."
)
ASSUMPTIONS = [
    "reference content key of pbt/trees.py (typed values, frozensets unordered, children by field and index)",
    "the v2 universe of pbt/models_v2.py samples 'any node model'; floats are not generated (not in C01's quantifier)",
    "blake2b collisions at digest size >= 8 bytes do not occur by chance",
]
FLOORS = {"pairs:NONTRIVIAL": 0.35, "pairs:expect-equal": 0.15, "pairs:expect-different": 0.3}

MUTATIONS = [
    "swap_tuple", "frame_shift", "sibling_class", "move_ka_kb", "last_char", "type_only", "fs_permute",
    "change_value", "noncompare_only", "drop_add_opt", "falsy_swap", "int_vs_str", "bytes_alias", "hash_flag",
    "child_to_other_field", "origins_only", "identical",
]

# --------------------------------------------------------------------- adversarial strings


def _tokens() -> list[str]:
    toks = [":", "=", "(", ")", "[", "]", "@", "-1", "0", ", ", "<class 'str'>", "<class 'int'>", "1", "a"]
    fields = sorted({f.name for c in M.TABLE for f in c.fields})
    for f in fields:
        for t in ("str", "int", "bool"):
            toks.append(f"):{f}=<class '{t}'>(")
        toks.append(f":{f}[-1]=")
        toks.append(f":{f}[1]=")
    toks += ["Strs", "LeafA", "LeafB", "):", "NoOrigin", "::"]
    return toks


TOKENS = _tokens()


def st_strs():
    adv = st.lists(st.sampled_from(TOKENS), min_size=1, max_size=4).map("".join)
    return st.one_of(st.sampled_from(T.PLAIN_STRS), st.sampled_from(T.PLAIN_STRS), adv)


# --------------------------------------------------------------------------- mutations


def spec_nodes(spec: dict) -> list[dict]:
    """all node dicts of a spec in pre-order, each with its slot info attached (not mutated)."""
    out: list[dict] = []

    def rec(n: Any, classes: tuple) -> None:
        if not isinstance(n, dict) or "c" not in n:
            return
        out.append({"node": n, "classes": classes})
        for f in M.child_fields(n["c"]):
            v = n.get("k", {}).get(f.name)
            if v is None:
                continue
            if isinstance(v, list):
                for i, x in enumerate(v):
                    rec(x, f.fixed[i] if f.kind == "fixed" else f.classes)
            else:
                rec(v, f.classes)

    rec(spec, ("Base",))
    return out


OTHER_ORIGINS = [["code", 0, 1, 2], ["gen", 1], ["xml", 3, "/q"], ["multi", [["code", 0, 0, 1], ["gen", 2]]], ["no"]]


def _colliding_sets() -> list[dict]:
    """frozensets of ints whose hashes collide in an 8-slot table (so that the iteration order of a
    set of them depends on insertion order), none a subset of another where possible."""
    import itertools

    by_slot: dict[int, list] = {}
    for r in (1, 2, 3):
        for c in itertools.combinations(range(7), r):
            by_slot.setdefault(hash(frozenset(c)) & 7, []).append(list(c))
    best = max(by_slot.values(), key=len)
    return [{"$fs": c} for c in best[:6]]


def _different_value(kind: str, cur: Any) -> Any:
    if kind == "int":
        return (cur if isinstance(cur, int) and not isinstance(cur, bool) else 0) + 1
    if kind == "bool":
        return not cur
    if kind == "optint":
        return 0 if cur is None else None
    if kind == "enum":
        return {"$e": "GREEN" if cur != {"$e": "GREEN"} else "BLUE"}
    if kind == "tint":
        return {"$t": [*(cur or {"$t": []})["$t"], 5]}
    if kind == "ft":
        c = (cur or {"$t": [0, ""]})["$t"]
        return {"$t": [c[0] + 1, c[1]]}
    if kind == "fsint":
        c = (cur or {"$fs": []})["$fs"]
        return {"$fs": [*c, 99]}
    if kind == "fsstr":
        c = (cur or {"$fs": []})["$fs"]
        return {"$fs": [*c, "new"]}
    if kind == "str":
        return (cur or "") + "x"
    if kind == "bytes":
        # the neighbour most likely to be confused with it: the text of its own escape sequence
        c = bytes.fromhex((cur or {"$b": ""})["$b"])
        looks = {b"\xff": b"\\xff", b"\\xff": b"\xff", b"\xe9": b"\\xe9", b"\\xe9": b"\xe9", b"'": b"\\'", b"\\'": b"'",
                 b"a\xffb": b"a\\xffb", b"a\\xffb": b"a\xffb", b"": b"\x00", b"\x00": b"\\x00"}
        return {"$b": looks.get(c, c + b"\xff").hex()}
    raise ValueError(kind)


def _default_spec_value(f: M.FieldDef) -> Any:
    return {"int": 0, "bool": False, "optint": None, "enum": {"$e": "RED"}, "tint": {"$t": []},
            "ft": {"$t": [0, ""]}, "fsint": {"$fs": []}, "fsstr": {"$fs": []}, "str": "",
            "float": 0.0, "path": {"$p": "x"}, "lit": "a", "optstr": None, "bytes": {"$b": ""}, "tfs": {"$t": []}}[f.kind]


NEEDS = {
    "noncompare_only": ["Vals"], "type_only": ["Vals", "LeafA"], "fs_permute": ["Vals"], "bytes_alias": ["Vals"], "hash_flag": ["Vals"],
    "swap_tuple": ["MixedItems"], "move_ka_kb": ["Uni"], "drop_add_opt": ["Uni"],
    "sibling_class": ["LeafA", "SubLeafA", "LeafB"], "last_char": ["Strs"], "falsy_swap": ["Falsy", "UniFalsy"],
    "frame_shift": ["Strs"], "int_vs_str": ["Strs"], "child_to_other_field": ["MixedItems", "MixedChild"],
}
GRAFTS = {
    "Vals": {"c": "Vals", "p": {}},
    "LeafA": {"c": "LeafA", "p": {"v": 1}},
    "LeafB": {"c": "LeafB", "p": {"v": 1}},
    "SubLeafA": {"c": "SubLeafA", "p": {"v": 2}},
    "Strs": {"c": "Strs", "p": {"a": "q"}},
    "Falsy": {"c": "Falsy", "p": {"v": 1}},
    "UniFalsy": {"c": "Uni", "k": {"one": {"c": "Falsy", "p": {"v": 0}}, "opt": None, "un": None, "ka": None, "kb": None}},
    "Uni": {"c": "Uni", "k": {"one": {"c": "LeafA", "p": {"v": 0}}, "opt": None, "un": None,
                              "ka": {"c": "LeafA", "p": {"v": 1}}, "kb": None}},
    "MixedItems": {"c": "Mixed", "p": {}, "k": {"child": None, "items": [{"c": "LeafA", "p": {"v": 0}},
                                                                      {"c": "LeafB", "p": {"v": 1}}]}},
    "MixedChild": {"c": "Mixed", "p": {}, "k": {"child": {"c": "LeafA", "p": {"v": 3}}, "items": []}},
}


def _graft(spec: dict, kind: str, n: int) -> dict:
    """make sure the tree contains a node the mutation can act on (replace one Base-typed
    position, chosen by n, by a small default node of a needed class)."""
    needs = NEEDS.get(kind)
    if not needs:
        return spec
    spec = copy.deepcopy(spec)
    g = copy.deepcopy(GRAFTS[needs[n % len(needs)]])
    slots = [x for x in spec_nodes(spec) if "Base" in x["classes"]]
    target = slots[(n // 3) % len(slots)]["node"]
    keep_origin = target.get("o", ["no"])
    target.clear()
    target.update(g)
    target["o"] = keep_origin
    return spec


def mutate(spec: dict, kind: str, n: int) -> tuple[dict, dict, bool]:
    """returns (a, b, applied)."""
    if (n // 11) % 4 != 0:  # 3 of 4 cases: guarantee applicability by grafting
        spec = _graft(spec, kind, n)
    a = copy.deepcopy(spec)
    b = copy.deepcopy(spec)
    nodes = [x for x in spec_nodes(b)]

    def pick(pred) -> dict | None:
        c = [x for x in nodes if pred(x)]
        return c[n % len(c)] if c else None

    if kind == "identical":
        return a, b, True
    if kind == "origins_only":
        x = pick(lambda x: True)
        cur = x["node"].get("o", ["no"])
        x["node"]["o"] = next(o for o in OTHER_ORIGINS[n % 5:] + OTHER_ORIGINS if o != cur)
        return a, b, True
    if kind == "noncompare_only":
        x = pick(lambda x: x["node"]["c"] in ("Vals", "SerVals"))
        if x is None:
            return a, b, False
        p = x["node"].setdefault("p", {})
        p["nc"] = (p.get("nc") or "") + "~"
        return a, b, True
    if kind == "change_value":
        x = pick(lambda x: any(f.init and f.compare for f in M.prop_fields(x["node"]["c"])))
        if x is None:
            return a, b, False
        fs = [f for f in M.prop_fields(x["node"]["c"]) if f.init and f.compare and f.kind in
              ("int", "bool", "optint", "enum", "tint", "ft", "fsint", "fsstr", "str", "bytes", "bytes")]
        f = fs[(n // 7) % len(fs)]
        p = x["node"].setdefault("p", {})
        p[f.name] = _different_value(f.kind, p.get(f.name, _default_spec_value(f)))
        return a, b, True
    if kind == "type_only":
        # choose a node and force matching values in a and b that differ only by type
        variants = []
        for x in nodes:
            cn = x["node"]["c"]
            if cn in ("LeafA", "LeafB", "SubLeafA", "Falsy", "Mixed", "InhMixed"):
                variants.append((x, "v", 1, True))
                variants.append((x, "v", 0, False))
            if cn in ("LeafA", "LeafB", "Mixed"):
                # an IntEnum member / an instance of an int subclass against the plain int of the same value
                variants.append((x, "v", 1, {"$ie": "LOW"}))
                variants.append((x, "v", 7, {"$is": 7}))
            if cn == "Vals":
                variants.append((x, "i", 2, {"$ie": "HIGH"}))
                variants.append((x, "t", {"$t": [1, 7]}, {"$t": [{"$ie": "LOW"}, 7]}))
                variants.append((x, "i", 1, True))
                variants.append((x, "t", {"$t": [1]}, {"$t": [True]}))
                variants.append((x, "o", 0, False))
                variants.append((x, "ft", {"$t": [1, "a"]}, {"$t": [True, "a"]}))
                variants.append((x, "fs", {"$fs": [1]}, {"$fs": [True]}))
                # a str-mixin enum member against the plain string of its own character data
                for _ in range(3):
                    variants.append((x, "sk", {"$se": "ADD"}, "plus"))
                    variants.append((x, "sk", {"$se": "SUB"}, "minus"))
        if not variants:
            return a, b, False
        x, fname, va, vb = variants[n % len(variants)]
        idx = nodes.index(x)
        spec_nodes(a)[idx]["node"].setdefault("p", {})[fname] = va
        x["node"].setdefault("p", {})[fname] = vb
        return a, b, True
    if kind == "hash_flag":
        # what is content follows `compare`, never the dataclass `hash=` option: a comparable field with
        # hash=False is content, a non-comparable field with hash=True is not
        x = pick(lambda x: x["node"]["c"] == "Vals")
        if x is None:
            return a, b, False
        fname = "hf" if n % 2 else "hn"
        x["node"].setdefault("p", {})[fname] = 1 + n % 3
        spec_nodes(a)[nodes.index(x)]["node"].setdefault("p", {})[fname] = 0
        return a, b, True
    if kind == "bytes_alias":
        x = pick(lambda x: x["node"]["c"] == "Vals")
        if x is None:
            return a, b, False
        idx = nodes.index(x)
        firsts = [b"\xff", b"\xe9", b"a\xffb", b"'", b"\x00", b"\xc3\x28"]
        first = {"$b": firsts[n % len(firsts)].hex()}
        spec_nodes(a)[idx]["node"].setdefault("p", {})["by"] = first
        x["node"].setdefault("p", {})["by"] = _different_value("bytes", first)
        return a, b, True
    if kind == "fs_permute":
        x = pick(lambda x: x["node"]["c"] == "Vals")
        if x is None:
            return a, b, False
        idx = nodes.index(x)
        pools = {"fs": [8, 16, 0, 24, -1, 32], "fss": ["b", "a", "zz", "", "aa", "c"], "ffs": _colliding_sets()}
        fname = ("fs", "fss", "ffs", "ffs")[n % 4]
        k = 2 + (n // 4) % 4
        elems = pools[fname][:k]
        perm = elems[1:] + elems[:1] if (n // 16) % 2 else list(reversed(elems))
        if n % 8 == 7:
            # a set inside a tuple, built in another element order
            fname = "tfs"
            inner = [0, 8, 16, 24][:k]
            elems_t = {"$t": [{"$fs": inner}, {"$fs": [1]}]}
            perm_t = {"$t": [{"$fs": list(reversed(inner))}, {"$fs": [1]}]}
            spec_nodes(a)[idx]["node"].setdefault("p", {})[fname] = elems_t
            x["node"].setdefault("p", {})[fname] = perm_t
            return a, b, True
        if n % 4 == 3:
            # the *inner* sets are built in another element order (ints that collide in a small table)
            inner = [0, 8, 16, 24][:k]
            elems = [{"$fs": inner}, {"$fs": [1]}]
            perm = [{"$fs": list(reversed(inner))}, {"$fs": [1]}]
        spec_nodes(a)[idx]["node"].setdefault("p", {})[fname] = {"$fs": elems}
        x["node"].setdefault("p", {})[fname] = {"$fs": perm}
        return a, b, True
    if kind == "swap_tuple":
        cands = []
        for x in nodes:
            for f in M.child_fields(x["node"]["c"]):
                v = x["node"].get("k", {}).get(f.name)
                if f.kind == "tuple" and isinstance(v, list) and len(v) >= 2:
                    cands.append((x, f.name, len(v)))
        if not cands:
            return a, b, False
        x, fname, ln = cands[n % len(cands)]
        i = (n // 5) % (ln - 1)
        v = x["node"]["k"][fname]
        v[i], v[i + 1] = v[i + 1], v[i]
        return a, b, True
    if kind == "move_ka_kb":
        x = pick(lambda x: x["node"]["c"] == "Uni")
        if x is None:
            return a, b, False
        k = x["node"].setdefault("k", {})
        k["ka"], k["kb"] = k.get("kb"), k.get("ka")
        return a, b, True
    if kind == "drop_add_opt":
        cands = []
        for x in nodes:
            for f in M.child_fields(x["node"]["c"]):
                if f.kind == "opt":
                    cands.append((x, f))
        if not cands:
            return a, b, False
        x, f = cands[n % len(cands)]
        k = x["node"].setdefault("k", {})
        if k.get(f.name) is None:
            k[f.name] = {"c": "LeafA" if "LeafB" not in f.classes or n % 2 else "LeafB", "p": {"v": n % 3}}
        else:
            k[f.name] = None
        return a, b, True
    if kind == "sibling_class":
        sib = {"LeafA": ["LeafB", "SubLeafA"], "LeafB": ["LeafA"], "SubLeafA": ["LeafA"]}
        cands = []
        for x in nodes:
            cn = x["node"]["c"]
            for s in sib.get(cn, []):
                if any(M.is_subclass(s, c) for c in x["classes"]):
                    cands.append((x, s))
        if not cands:
            return a, b, False
        x, s = cands[n % len(cands)]
        x["node"]["c"] = s
        p = x["node"].get("p", {})
        x["node"]["p"] = {k: v for k, v in p.items() if k == "v"}
        return a, b, True
    if kind == "last_char":
        x = pick(lambda x: x["node"]["c"] == "Strs")
        if x is None:
            return a, b, False
        idx = nodes.index(x)
        length = 1 + n % 300
        base = ("abcdefghij" * 31)[:length]
        fname = ["a", "b", "ab"][(n // 300) % 3]
        spec_nodes(a)[idx]["node"].setdefault("p", {})[fname] = base
        x["node"].setdefault("p", {})[fname] = base[:-1] + "Z"
        return a, b, True
    if kind == "falsy_swap":
        x = pick(lambda x: x["node"]["c"] == "Falsy")
        if x is None:
            return a, b, False
        p = x["node"].setdefault("p", {})
        p["v"] = (p.get("v", 0) if isinstance(p.get("v", 0), int) else 0) + 1 + n % 3
        return a, b, True
    if kind == "frame_shift":
        x = pick(lambda x: x["node"]["c"] == "Strs")
        if x is None:
            return a, b, False
        idx = nodes.index(x)
        f1, f2 = [("a", "ab"), ("ab", "b")][n % 2]
        pa = spec_nodes(a)[idx]["node"].setdefault("p", {})
        pb = x["node"].setdefault("p", {})
        P, Q, R = ["1", "p", ""][n % 3], ["2", "", "q q"][(n // 3) % 3], ["3", "r", ""][(n // 9) % 3]
        sep = f"):{f2}=<class 'str'>("
        if (n // 27) % 3 == 1:
            # the escape character itself next to the framing: a value that ends in a backslash against
            # a value that starts with the text of the frame
            pa[f1], pa[f2] = P + "\\", Q + sep + R
            pb[f1], pb[f2] = P + sep + Q + "\\", R
        elif (n // 27) % 3 == 2:
            pa[f1], pa[f2] = P + "\\" + sep + Q, R
            pb[f1], pb[f2] = P + "\\", Q + sep + R
        else:
            pa[f1], pa[f2] = P + sep + Q, R
            pb[f1], pb[f2] = P, Q + sep + R
        return a, b, True
    if kind == "int_vs_str":
        x = pick(lambda x: x["node"]["c"] == "Strs")
        if x is None:
            return a, b, False
        idx = nodes.index(x)
        spec_nodes(a)[idx]["node"].setdefault("p", {})["a"] = "1"
        x["node"].setdefault("p", {})["a"] = 1
        return a, b, True
    if kind == "child_to_other_field":
        # move the single element of Mixed.items to Mixed.child (or back): same children, other field
        x = pick(lambda x: x["node"]["c"] in ("Mixed", "InhMixed"))
        if x is None:
            return a, b, False
        k = x["node"].setdefault("k", {})
        items = k.get("items") or []
        if k.get("child") is None and len(items) >= 1:
            k["child"], k["items"] = items[0], items[1:]
        elif k.get("child") is not None:
            k["items"], k["child"] = [k["child"], *items], None
        else:
            return a, b, False
        return a, b, True
    raise ValueError(kind)


# ----------------------------------------------------------------------------- pool

_POOL_CID_TO_KEY: dict[tuple, tuple] = {}  # (digest, cid) -> (key hash, witness spec)
_POOL_KEY_TO_CID: dict[tuple, tuple] = {}
_POOL_LIMIT = 400_000


def _enode_to_spec(e: T.ENode) -> dict:
    """plain spec of an expanded subtree (shares expanded into copies)."""

    def enc(v: Any) -> Any:
        import enum
        from pathlib import PurePath

        if isinstance(v, enum.Enum):
            return {"$se" if isinstance(v, str) else "$e": v.name}
        if isinstance(v, bool) or v is None or isinstance(v, (int, str, float)):
            return v
        if isinstance(v, PurePath):
            return {"$p": v.as_posix()}
        if isinstance(v, (bytes, bytearray)):
            return {"$b": bytes(v).hex()}
        if isinstance(v, tuple):
            return {"$t": [enc(x) for x in v]}
        if isinstance(v, frozenset):
            return {"$fs": [enc(x) for x in v]}
        raise ValueError(v)

    k: dict = {}
    for fn, v in e.kids.items():
        if v is None:
            k[fn] = None
        elif isinstance(v, list):
            k[fn] = [_enode_to_spec(c) for c in v]
        else:
            k[fn] = _enode_to_spec(v)
    return {"c": e.cls, "p": {n: enc(v) for n, v in e.props.items()}, "k": k, "o": e.origin}


def _pool_add(digest: int, e: T.ENode, key: Any, cid: str, case_pair: tuple | None) -> None:
    ck = (digest, cid)
    prev = _POOL_CID_TO_KEY.get(ck)
    if prev is not None and prev[0] != key:
        raise Violation(
            "same-content_id-different-content",
            f"content_id {cid} is shared by two nodes with different content keys",
            override=("explicit_pair", {"a": prev[1], "b": _enode_to_spec(e), "digest": digest, "expect": "different"}),
        )
    kk = (digest, key)
    prev2 = _POOL_KEY_TO_CID.get(kk)
    if prev2 is not None and prev2[0] != cid:
        raise Violation(
            "equal-content-different-content_id",
            f"content-equal nodes got content_ids {prev2[0]} and {cid}",
            override=("explicit_pair", {"a": prev2[1], "b": _enode_to_spec(e), "digest": digest, "expect": "equal"}),
        )
    if prev is None and len(_POOL_CID_TO_KEY) < _POOL_LIMIT:
        w = _enode_to_spec(e)
        _POOL_CID_TO_KEY[ck] = (key, w)
        _POOL_KEY_TO_CID[kk] = (cid, w)


# ----------------------------------------------------------------------------- checks


def check_pairs(data: dict, lab: Labels) -> None:
    from pyoak import config

    kind = data["mut"]
    sa, sb, applied = mutate(data["tree"], kind, data["n"])
    digest = data.get("digest", 8)
    config.ID_DIGEST_SIZE = digest
    lab.tag(kind if applied else "inapplicable")
    lab.sample_class = kind if applied else None
    ea, _ = T.expand(sa)
    eb, _ = T.expand(sb)
    sources = None
    if data.get("order"):
        bb = T.Built(eb, T.og.make_sources())
        ba = T.Built(ea, bb.sources)
    else:
        ba = T.Built(ea, T.og.make_sources())
        bb = T.Built(eb, ba.sources)
    del sources
    _compare_trees(ea, ba, eb, bb, digest, lab)
    lab.nontrivial = applied and kind != "identical" and json.dumps(sa, sort_keys=True) != json.dumps(sb, sort_keys=True)


def _compare_trees(ea, ba, eb, bb, digest, lab) -> None:
    memo_a: dict = {}
    memo_b: dict = {}
    ka = T.content_key(ea, memo_a)
    kb = T.content_key(eb, memo_b)
    ra, rb = ba.root, bb.root
    created = []
    for e, b, memo in ((ea, ba, memo_a), (eb, bb, memo_b)):
        for n in T.nodes_preorder(e):
            live = b.of(n)
            created.append((live, live.content_id, hash(live)))
    expect_equal = ka == kb
    lab.tag("expect-equal" if expect_equal else "expect-different")
    require((ra.content_id == rb.content_id) == expect_equal, "content_id-vs-content",
            f"keys equal={expect_equal} but content_ids {ra.content_id} / {rb.content_id}")
    same_cls = ea.cls == eb.cls
    require(ra.is_equal(rb) == (expect_equal and same_cls), "is_equal", f"expected {expect_equal}")
    require(rb.is_equal(ra) == (expect_equal and same_cls), "is_equal-symmetric", f"expected {expect_equal}")
    require(ra.is_equal(ra), "is_equal-reflexive", "")
    for foreign in (None, 0, "x", ra.content_id):
        require(ra.is_equal(foreign) is False, "is_equal-non-node", repr(foreign))
    # all pairs of nodes of both trees + everything seen earlier in this shard
    for e, b, memo in ((ea, ba, memo_a), (eb, bb, memo_b)):
        for n in T.nodes_preorder(e):
            _pool_add(digest, n, T.content_key(n, memo), b.of(n).content_id, None)
    # lifetime constancy (after lookups, traversals, detach)
    ra.detach()
    list(rb.dfs())
    for live, cid, h in created:
        require(live.content_id == cid, "content_id-changed", cid)
        require(hash(live) == h, "hash-changed", cid)


def check_explicit_pair(data: dict, lab: Labels) -> None:
    from pyoak import config

    digest = data.get("digest", 8)
    config.ID_DIGEST_SIZE = digest
    ea, _ = T.expand(data["a"])
    eb, _ = T.expand(data["b"])
    ba = T.Built(ea, T.og.make_sources())
    bb = T.Built(eb, ba.sources)
    ka, kb = T.content_key(ea), T.content_key(eb)
    require((ba.root.content_id == bb.root.content_id) == (ka == kb), "content_id-vs-content",
            f"keys equal={ka == kb} but content_ids {ba.root.content_id} / {bb.root.content_id}")
    require(ba.root.is_equal(bb.root) == (ka == kb and ea.cls == eb.cls), "is_equal", "")
    lab.nontrivial = True


def st_pairs(ctx: Ctx):
    g = T.TreeGen(leaves=ctx.pick(8, 14), strs=st_strs(), origin_rate=0.2)
    return st.fixed_dictionaries(
        {
            "tree": st.one_of(g.tree(), g.inner_tree()),
            "mut": st.sampled_from(MUTATIONS),
            "n": st.integers(0, 10_000),
            "digest": st.sampled_from([8, 8, 16]),
            "order": st.booleans(),
        }
    )


# ----------------------------------------------------------------------------- xproc


def check_xproc(data: dict, lab: Labels) -> None:
    from pbt import xproc
    from pyoak import config

    seed = int(os.environ.get("VERIF_SEED", "1") or 1)
    digest = data.get("digest", 8)
    config.ID_DIGEST_SIZE = digest
    b, root_e, ex = T.build(data["tree"])
    mine = {str(e.uid): b.of(e).content_id for e in ex.done}
    for k in range(2):
        hs = (seed * 7919 + 104729 * (k + 1) + data.get("wsel", 0) % 4) % (2**32 - 1) + 1
        w = xproc.get_worker(hs, perm_seed=seed * 13 + k + 1)
        res = w.call({"op": "cids", "spec": data["tree"], "digest": digest})
        if not res.get("ok"):
            if res.get("from_library"):
                raise Violation("worker-exception", res.get("error", ""))
            from pbt.runtime import HarnessError

            raise HarnessError(f"worker failed: {res}")
        theirs = res["cids"]
        bad = [u for u in mine if mine[u] != theirs.get(u)]
        require(not bad, "content_id-depends-on-process",
                f"hashseed={hs} perm_seed={w.perm_seed}: node uids {bad[:5]} differ, e.g. {mine[bad[0]] if bad else ''} "
                f"vs {theirs.get(bad[0]) if bad else ''}")
    has_set = any(isinstance(v, frozenset) and len(v) > 1 for e in ex.done for v in e.props.values())
    lab.tag_if(has_set, "frozenset>1")
    lab.nontrivial = len(ex.done) >= 2
    lab.sample_class = "frozenset" if has_set else None


def st_xproc(ctx: Ctx):
    g = T.TreeGen(leaves=ctx.pick(8, 14), strs=st_strs(), origin_rate=0.1)
    return st.fixed_dictionaries({"tree": g.tree(), "digest": st.sampled_from([8, 16]), "wsel": st.integers(0, 3)})


# ----------------------------------------------------------------------------- reloaded


def check_reloaded(data: dict, lab: Labels) -> None:
    """content_id of nodes that come out of the deserializer: a tree is written under one digest
    width, dropped, and read back under another (or the same) width, optionally after one int
    property of the payload was edited; every node read must carry the content_id a node built by
    hand from the same content gets now."""
    import copy

    from pyoak import config
    from pyoak.node import ASTNode

    config.ID_DIGEST_SIZE = data["digest_a"]
    b, root_e, ex = T.build(data["tree"], allow_share=False)
    root = b.root
    cls = type(root)
    payload = root.as_dict()
    pre = T.nodes_preorder(root_e)
    parent: dict = {root_e.uid: None}
    for c, p, fn, i in T.positions(root_e):
        parent[c.uid] = (p, fn, i)
    edit_at = None
    if data["edit"]:
        cands = [k for k, e in enumerate(pre) if isinstance(e.props.get("v"), int) and not isinstance(e.props.get("v"), bool)
                 and e.cls in ("LeafA", "LeafB", "SubLeafA", "Mixed")]
        if cands:
            edit_at = cands[data["edit"] % len(cands)]
            cur = pre[edit_at]
            path = []
            while parent[cur.uid] is not None:
                p, fn, i = parent[cur.uid]
                path.append((fn, i))
                cur = p
            at = payload
            for fn, i in reversed(path):
                at = at[fn] if i is None else at[fn][i]
            at["v"] = at["v"] + 1 + data["edit"] % 3
            new_v = at["v"]
    for n in T.live_nodes(root):
        n.detach_self()
    old_root_cid = root.content_id
    del b, root
    config.ID_DIGEST_SIZE = data["digest_b"]
    fmt = data["fmt"] % 3
    if fmt == 0:
        res = cls.as_obj(copy.deepcopy(payload))
    elif fmt == 1:
        res = ASTNode.as_obj(payload)
    else:
        res = cls.from_json(json.dumps(payload))
    e2, _ = T.expand(data["tree"], allow_share=False)
    pre2 = T.nodes_preorder(e2)
    if edit_at is not None:
        pre2[edit_at].props["v"] = new_v
    b2 = T.Built(e2, T.og.make_sources())
    got = [res, *[i.node for i in res.dfs()]]
    require(len(got) == len(pre2), "reload-shape", f"{len(got)} nodes read, {len(pre2)} built")
    for k, (g, e) in enumerate(zip(got, pre2)):
        h = b2.of(e)
        require(type(g) is type(h), "reload-shape", f"node {k}: {type(g).__name__} / {type(h).__name__}")
        require(g.content_id == h.content_id, "content_id-vs-content",
                f"node {k} ({e.cls}) read from a payload written at width {data['digest_a']}"
                f"{' and edited' if edit_at is not None else ''}: content_id {g.content_id}, the same content built by hand: {h.content_id}")
        require(g.is_equal(h) and h.is_equal(g), "is_equal", f"node {k} ({e.cls}) read from a payload vs built by hand")
    if edit_at is not None and data["digest_a"] == data["digest_b"] >= 8:
        require(res.content_id != old_root_cid, "content_id-vs-content",
                "a payload with an edited property was read back with the content_id of the unedited tree")
    lab.tag_if(data["digest_a"] != data["digest_b"], "width-changed")
    lab.tag_if(edit_at is not None, "payload-edited")
    lab.tag(f"width{data['digest_a']}->{data['digest_b']}")
    lab.nontrivial = data["digest_a"] != data["digest_b"] or edit_at is not None
    lab.sample_class = "edited" if edit_at is not None else None


def st_reloaded(ctx: Ctx):
    g = T.TreeGen(leaves=ctx.pick(6, 10), share=False, origin_rate=0.2, servals=True, frozensets=False, wide=False)
    w = st.sampled_from([8, 8, 16, 1, 2, 64, 4])
    return st.fixed_dictionaries({"tree": st.one_of(g.tree(), g.inner_tree()), "digest_a": w, "digest_b": w,
                                  "edit": st.sampled_from([0, 0, 1, 2, 3, 5]), "fmt": st.integers(0, 2)})


PARTS = [
    Part("pairs", check_pairs, strategy=st_pairs, quick=4800, thorough=300000),
    Part("xproc", check_xproc, strategy=st_xproc, quick=800, thorough=32000),
    Part("explicit_pair", check_explicit_pair),
    Part("reloaded", check_reloaded, strategy=st_reloaded, quick=1200, thorough=40000),
]
