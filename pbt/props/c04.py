"""C04 — serialization round-trips trees exactly in dict, JSON, MessagePack and YAML."""
from __future__ import annotations

import base64
import gc
import json
import os
import weakref
from typing import Any

from hypothesis import strategies as st

from pbt import models_v2 as M
from pbt import origins as og
from pbt import trees as T
from pbt.runtime import Ctx, HarnessError, Labels, Part, Violation, canonical, require

PROP = "C04"
RULE = (
    "Hypothesis tree specs over the v2 universe incl. SerVals (YAML-hostile and astral strings, "
    "64-bit ints, finite floats, bools, None, enum, Path, Literal, tuples, optionals, "
    "non-comparable and non-init fields), every origin kind at every position, shared subtrees; "
    "optionally a full outside copy is built first so that members carry _N id suffixes (and is "
    "optionally dropped before reading back, so ids must be forced); x format in {dict, json, "
    "msgpack, yaml} x option in {none, SORT_KEYS, AST_EXPLORER, index-based sources with the "
    "documented load protocol} x alive set: a drawn set of subtrees stays referenced and registered, "
    "the rest is detached and/or dropped and collected (or kept referenced but detached), including "
    "none alive, and a fresh-process variant (payload read back by a worker interpreter). Oracle, "
    "position by position against a snapshot taken before serialization: the original object if still "
    "registered, otherwise a new registered node with equal class, id, content_id, typed property "
    "values and origin spec; shared positions share again; result == original; No* singletons are "
    "identical objects. non-trivial = some position is re-created and the tree has a non-empty origin "
    "or a suffixed id."
)
ASSUMPTIONS = [
    "values are type-exact for their annotation (no int in a float field); -0.0/NaN/inf and frozensets are outside C04's quantifier",
    "no node is created between serialization and deserialization other than by the library (that interleaving belongs to C03)",
]
FLOORS = {"trees:recreated": 0.3, "trees:forced-id": 0.05, "trees:fmt-yaml": 0.12, "trees:fmt-msgpack": 0.12}

HOSTILE = ["yes", "~", "1e3", " lead", "trail ", "a\nb", "\x85", "\U0001F600", "null", "true", "0123", "- x",
           "{a: b}", "'q'", '"dq"', "#c", "", " ", "é", "\t", "1.0", "0x10", ":", "[x]", "a: b", "\\", "\x7f"]
OPTS = ["none", "sort", "explorer", "index"]
FMTS = ["dict", "json", "msgpack", "yaml"]


def _ser(node: Any, fmt: str, opts: dict | None, variant: int = 0) -> Any:
    if fmt == "dict":
        return node.as_dict(serialization_options=opts)
    if fmt == "json":
        if variant % 3 == 1:
            return node.to_json(indent=True, serialization_options=opts)
        if variant % 3 == 2:
            return node.to_jsonb(indent=bool(variant % 2), serialization_options=opts)  # bytes
        return node.to_json(serialization_options=opts)
    if fmt == "msgpack":
        return node.to_msgpck(serialization_options=opts)
    return node.to_yaml(serialization_options=opts)


def _de(cls: Any, payload: Any, fmt: str, opts: dict | None) -> Any:
    if fmt == "dict":
        return cls.as_obj(payload, serialization_options=opts)
    if fmt == "json":
        return cls.from_json(payload, serialization_options=opts)
    if fmt == "msgpack":
        return cls.from_msgpck(payload, serialization_options=opts)
    return cls.from_yaml(payload, serialization_options=opts)


def _options(opt: str) -> tuple[dict | None, dict | None]:
    from pyoak.node import ASTSerializationDialects
    from pyoak.origin import SOURCE_OPTIMIZED_SERIALIZATION_KEY
    from pyoak.serialize import SerializationOption

    if opt == "sort":
        return {SerializationOption.SORT_KEYS: True}, None
    if opt == "explorer":
        return {"ast_serialize_dialect": ASTSerializationDialects.AST_EXPLORER}, None
    if opt == "index":
        o = {SOURCE_OPTIMIZED_SERIALIZATION_KEY: True}
        return o, dict(o)
    return None, None


def _props_of(node: Any) -> list:
    import dataclasses

    from pyoak.node import ASTNode
    from pyoak.origin import Origin

    out = []
    for f in dataclasses.fields(node):
        if f.name in ("id", "content_id"):
            continue
        v = getattr(node, f.name)
        if isinstance(v, (ASTNode, Origin)) or (isinstance(v, tuple) and v and isinstance(v[0], ASTNode)):
            continue
        if v is None and T._is_child_field(type(node).__name__, f.name):
            continue
        if isinstance(v, tuple) and not v and T._is_child_tuple_field(type(node).__name__, f.name):
            continue
        out.append([f.name, T.typed_value(v)])
    return json.loads(canonical(out))


def _safe(fn: Any) -> Any:
    try:
        return fn()
    except Exception as e:  # noqa: BLE001 - a broken origin object shows up as a difference, not as a harness error
        return ["<error>", type(e).__name__]


def dump_tree(root: Any, sources: list) -> list:
    """pre-order structural dump with identity classes (own reflection)."""
    from pyoak.node import ASTNode

    out: list = []
    ident: dict[int, int] = {}

    def rec(n: Any, path: str) -> None:
        k = ident.setdefault(id(n), len(ident))
        out.append({
            "path": path, "cls": type(n).__name__, "id": n.id, "cid": n.content_id, "props": _props_of(n),
            "origin": og.origin_spec_of(n.origin, sources), "origin_fqn": _safe(lambda: n.origin.fqn),
            "origin_source": _safe(lambda: [type(n.origin.source).__name__, n.origin.source.fqn]),
            "obj": k, "registered": ASTNode.get_any(n.id) is n, "clsobj": id(type(n)),
        })
        for c, fn, i in T.live_children(n):
            rec(c, f"{path}.{fn}[{i}]")

    rec(root, "root")
    return out


def worker_load(req: dict) -> list:
    """runs inside pbt/worker.py (fresh interpreter): read a payload back and dump it."""
    from pyoak.origin import Source

    og.rev_source_cls()  # the user-defined source class is part of the model both processes load
    sources = og.make_sources()
    if req.get("sources") is not None:
        Source.clear_registry()
        Source.load_serialized_sources(req["sources"])
    payload = req["payload"]
    if req["fmt"] == "msgpack":
        payload = base64.b64decode(payload)
    _, dopts = _options(req["opt"])
    res = _de(M.cls(req["cls"]), payload, req["fmt"], dopts)
    ref_sources = og.make_sources() if req.get("sources") is None else sources
    return dump_tree(res, ref_sources)


def check_tree(data: dict, lab: Labels) -> None:
    from pyoak import origin as O
    from pyoak.node import ASTNode
    from pyoak.origin import Source

    fmt = FMTS[data["fmt"] % 4]
    opt = OPTS[data["opt"] % 4]
    lab.tag("fmt-" + fmt, "opt-" + opt)
    sopts, dopts = _options(opt)
    sources = og.make_sources()
    root_e, ex = T.expand(data["tree"])
    outside = None
    fresh_src = bool(data.get("fresh_sources"))
    lab.tag_if(fresh_src, "distinct-equal-source-objects")
    if data["outside"]:
        outside = T.Built(root_e, sources, fresh_src)  # full outside copy first: members get _N suffixes
    b = T.Built(root_e, sources, fresh_src)
    root = b.root
    snap = dump_tree(root, sources)
    suffixed = any("_" in p["id"] for p in snap)
    lab.tag_if(suffixed, "suffixed-ids")
    for kind in {p["origin"][0] for p in snap}:
        lab.tag("origin-" + kind)
    lab.tag_if(ex.n_shared > 0, "shared")
    pre = data.get("pre_dump", 0) % 6
    if pre >= 4:
        # an earlier read with options that fails part-way (unknown source index / unknown class)
        from pyoak.origin import SOURCE_OPTIMIZED_SERIALIZATION_KEY

        lab.tag(f"pre-failed-read-{pre}")
        bad = root.as_dict(serialization_options={SOURCE_OPTIMIZED_SERIALIZATION_KEY: True})
        bad["id"] = "no-such-id-anywhere"
        if pre == 4:
            bad["origin"] = {"__type": "CodeOrigin", "source": {"idx": 987654}, "position": {}}
        else:
            bad["__type"] = "NoSuchNodeClass"
        try:
            type(root).as_obj(bad, serialization_options={SOURCE_OPTIMIZED_SERIALIZATION_KEY: True})
            # (a class that ignores the damaged part may still read it: then a stray node exists)
        except Exception:  # noqa: BLE001 - any rejection is fine here, C16 is about what follows
            pass
        stray = ASTNode.get_any("no-such-id-anywhere")
        if stray is not None:
            stray.detach_self()
        del stray
    elif pre:
        # an earlier dump of the same tree in another flavour (its result is not used) must not
        # change what the round trip below returns
        from pyoak.node import ASTSerializationDialects
        from pyoak.serialize import SerializationOption

        lab.tag(f"pre-dump-{pre}")
        if pre == 1:
            root.as_dict(serialization_options={"ast_serialize_dialect": ASTSerializationDialects.AST_TEST})
        elif pre == 2:
            root.to_json(serialization_options={SerializationOption.SKIP_CLASS: True, SerializationOption.SORT_KEYS: True})
        else:
            root.to_msgpck(serialization_options={"ast_serialize_dialect": ASTSerializationDialects.AST_EXPLORER})
    payload = _ser(root, fmt, sopts, data["mask"] % 7)
    ser_sources = Source.all_as_dict() if opt == "index" else None

    # --- alive set
    order: list[Any] = []  # live objects by snapshot identity class
    seen: set[int] = set()

    def walk(n: Any) -> None:
        if id(n) not in seen:
            seen.add(id(n))
            order.append(n)
        for c, _, _ in T.live_children(n):
            walk(c)

    walk(root)
    mode = data["alive_mode"] % 5  # 0 all alive, 1 none, 2 subset by mask, 3 subset kept-detached, 4 leaves only
    mask = data["mask"]
    keep_roots = []
    if mode == 0:
        keep_roots = [root]
    elif mode in (2, 3):
        keep_roots = [n for i, n in enumerate(order) if mask >> (i % 40) & 1]
    elif mode == 4:  # every parent is given up, the childless nodes stay (whatever field type holds them)
        keep_roots = [n for n in order if not T.live_children(n)]
    alive_ids: set[int] = set()
    for k in keep_roots:
        for n in T.live_nodes(k):
            alive_ids.add(id(n))
    held_detached: list[Any] = []
    refs = [weakref.ref(n) for n in order]
    for n in order:
        if id(n) not in alive_ids:
            if mode == 3 or data["detach_dropped"]:
                n.detach_self()
            if mode == 3:
                held_detached.append(n)
    alive_by_obj = {snap_i["obj"]: False for snap_i in snap}
    k_of = {id(n): i for i, n in enumerate(order)}
    for n in order:
        alive_by_obj[k_of[id(n)]] = id(n) in alive_ids
    root_kept = id(root) in alive_ids
    orig_by_obj = {k_of[id(n)]: n for n in order if id(n) in alive_ids or mode == 3}
    if data["outside"] and data["drop_outside"]:
        outside = None
    lab.tag(["all-alive", "none-alive", "subset-alive", "subset-alive-rest-held-detached", "leaves-alive"][mode])

    if data["fresh"]:
        # fresh-process variant: nothing of this process matters; the worker reads the payload
        from pbt import xproc

        seed = int(os.environ.get("VERIF_SEED", "1") or 1)
        w = xproc.get_worker((seed * 104723 + 7) % (2**32 - 1) + 1, None)
        p = base64.b64encode(payload).decode() if fmt == "msgpack" else (
            payload.decode("utf-8") if isinstance(payload, bytes) else payload)
        res = w.call({"op": "load", "fmt": fmt, "opt": opt, "payload": p, "cls": type(root).__name__,
                      "sources": ser_sources})
        if not res.get("ok"):
            if res.get("from_library"):
                raise Violation("fresh-process-load-failed", res.get("error", ""))
            raise HarnessError(f"worker: {res}")
        got = res["dump"]
        _compare_dumps(snap, got, "fresh-process")
        lab.tag("fresh-process")
        lab.nontrivial = len(snap) > 1 and (suffixed or any(p["origin"][0] != "no" for p in snap))
        return

    del b, root, order, seen, keep_roots
    n = k = None  # loop variables must not keep nodes alive
    if mode != 3:
        held_detached = []
    gc.collect()
    if mode == 1 and not (data["outside"] and outside is not None) and any(r() is not None for r in refs):
        raise HarnessError("dropped nodes are still alive (the harness holds a reference)")
    if opt == "index" and data["reload_sources"]:
        Source.clear_registry()
        Source.load_serialized_sources(ser_sources)
        cmp_sources = og.make_sources()  # equal sources (registered ones are the loaded copies)
        lab.tag("sources-reloaded")
    else:
        cmp_sources = sources
    res = _de(M.cls(root_e.cls), payload, fmt, dopts)
    got = dump_tree(res, cmp_sources)
    _compare_dumps(snap, got, "same-process")
    # identity: registered originals come back as themselves, others are new registered objects
    recreated = 0
    forced = 0
    pos = 0
    result_objs: dict[int, Any] = {}
    recreated_nodes: list[Any] = []

    def rec(n: Any) -> None:
        nonlocal pos, recreated, forced
        s = snap[pos]
        pos += 1
        k = s["obj"]
        if k in result_objs:
            require(result_objs[k] is n, "shared-position-not-shared", s["path"])
        result_objs[k] = n
        if alive_by_obj[k]:
            require(n is orig_by_obj[k], "registered-original-not-returned", f"{s['path']}: {s['cls']} {s['id']}")
        else:
            if k in orig_by_obj:
                require(n is not orig_by_obj[k], "detached-original-returned", s["path"])
            recreated += 1
            recreated_nodes.append(n)
            if "_" in s["id"]:
                forced += 1
            require(ASTNode.get_any(n.id) is n, "recreated-node-not-registered", f"{s['path']}: {n.id}")
        if n.origin is not None and s["origin"] == ["no"]:
            require(n.origin is O.NO_ORIGIN, "no-origin-singleton", s["path"])
        for c, _, _ in T.live_children(n):
            rec(c)

    rec(res)
    # no stale registry keys: whatever is returned under an id (or under the un-suffixed form of a
    # suffixed id) must carry that id
    for s_ in snap:
        for key in {s_["id"], s_["id"].split("_")[0]}:
            r_ = ASTNode.get_any(key)
            require(r_ is None or r_.id == key, "lookup-returns-node-with-other-id",
                    f"get_any({key!r}) returns a node whose id is {getattr(r_, 'id', None)!r}")
    if recreated and data["mask"] % 3 == 0:
        # the payload belongs to the caller and can be read again: the nodes the first reading made are given
        # up, the very same payload object is read a second time
        for n_ in recreated_nodes:
            n_.detach_self()
        res2 = _de(M.cls(root_e.cls), payload, fmt, dopts)
        _compare_dumps(snap, dump_tree(res2, cmp_sources), "second reading of the same payload object")
        lab.tag("payload-read-twice")
        del res2
    if root_kept:
        require(res is orig_by_obj[0], "root-original-not-returned", "")
    if mode == 3 or root_kept:
        r0 = orig_by_obj.get(0)
        if r0 is not None:
            require(res == r0 and r0 == res, "result-not-equal-original", "")
    if opt == "index" and not data["reload_sources"]:
        for n in recreated_nodes:
            o = n.origin
            for m in (o.origins if isinstance(o, O.MultiOrigin) else [o]):
                if not isinstance(m.source, (O.NoSource, O.SourceSet)):
                    require(any(m.source is s for s in Source.list_registered_sources()),
                            "index-source-not-registered-object", str(m.source))
    lab.tag_if(recreated > 0, "recreated")
    lab.tag_if(forced > 0 and data["outside"] and data["drop_outside"], "forced-id")
    lab.nontrivial = recreated > 0 and (suffixed or any(p["origin"][0] != "no" for p in snap))
    del held_detached, outside


def _compare_dumps(snap: list, got: list, where: str) -> None:
    require(len(snap) == len(got), "shape", f"{where}: {len(snap)} positions before, {len(got)} after")
    ident: dict[int, int] = {}
    for s, g in zip(snap, got):
        for key, clause in (("path", "shape"), ("cls", "class"), ("id", "id"), ("cid", "content_id"),
                            ("props", "property-values"), ("origin", "origin"), ("origin_fqn", "origin-fqn"),
                            ("origin_source", "origin-source")):
            require(s[key] == g[key], clause, f"{where} at {s['path']}: {s[key]!r} -> {g[key]!r}")
        if where == "same-process":
            require(s["clsobj"] == g["clsobj"], "class-object", f"{where} at {s['path']}: an instance of another class "
                    f"object named {g['cls']}")
        require(ident.setdefault(s["obj"], g["obj"]) == g["obj"], "shared-position-not-shared", f"{where} {s['path']}")
        require(g["registered"], "result-node-not-registered", f"{where} at {s['path']}: {g['id']}")
    require(len(set(ident.values())) == len(ident), "distinct-objects-merged", where)


def st_case(ctx: Ctx):
    strs = st.one_of(st.sampled_from(T.PLAIN_STRS), st.sampled_from(HOSTILE),
                     st.text(max_size=6).filter(lambda s: all(0xD800 > ord(c) or ord(c) > 0xDFFF for c in s)))
    g = T.TreeGen(leaves=ctx.pick(8, 12), origin_rate=0.45, servals=True, frozensets=False, strs=strs,
                  extra_leaves=("SerVals", "SerVals"), wide=False, rev_sources=True)
    return st.fixed_dictionaries(
        {
            "tree": st.one_of(g.inner_tree(), g.inner_tree(), g.tree()),
            "fmt": st.sampled_from([3, 2, 1, 0]),
            "opt": st.sampled_from([3, 2, 1, 0, 0, 3]),
            "alive_mode": st.sampled_from([2, 1, 3, 2, 1, 0, 2, 4]),
            "mask": st.integers(0, 2**40 - 1),
            "detach_dropped": st.booleans(),
            "outside": st.sampled_from([True, False]),
            "drop_outside": st.sampled_from([True, True, False]),
            "fresh": st.sampled_from([False] * 5 + [True]),
            "reload_sources": st.booleans(),
            "fresh_sources": st.booleans(),
            "pre_dump": st.sampled_from([0, 0, 0, 1, 1, 2, 3, 4, 4, 5]),
        }
    )


PARTS = [Part("trees", check_tree, strategy=st_case, quick=8000, thorough=300000)]
