"""C14 — duplicate and replace produce faithful, independent copies."""
from __future__ import annotations

import dataclasses
from typing import Any

from hypothesis import strategies as st

from pbt import models_v2 as M
from pbt import origins as og
from pbt import trees as T
from pbt.runtime import Ctx, Labels, Part, require

PROP = "C14"
RULE = (
    "Hypothesis tree specs (tuples, optionals, shared subtrees, non-init and non-comparable fields, "
    "all origin kinds) and a short scenario around one subject node chosen by index: 0-2 registered "
    "twins of the subject are created, the subject is optionally detached, then duplicate() / "
    "ASTNode.replace / dataclasses.replace is applied with a drawn single- or two-field change "
    "(comparable property, non-comparable property, single child, tuple of children, origin). "
    "Oracle: duplicate is == with position-wise equal class/content_id/properties/origin, all-new "
    "registered objects with ids unused by registered originals; replace keeps untouched init fields "
    "as the same objects; ASTNode.replace unregisters the original and its id equals the id of a "
    "metamorphic rebuild (detach result, construct again from the same field objects), and equals the "
    "original's id when only non-comparable fields change and no registered twin exists; "
    "dataclasses.replace keeps a registered original registered and yields another id. non-trivial = "
    "subject has a tuple child at depth >= 2, or a twin is registered, or the subject is detached."
)
ASSUMPTIONS = [
    "'registered twin' is decided against all nodes the case built (own bookkeeping of detaches), not pyoak's registry",
]
FLOORS = {"cases:twin-registered": 0.2, "cases:subject-detached": 0.12, "cases:tuple-child": 0.15}

CHANGES = ["prop", "noncompare", "child", "tuple", "origin", "twin_child"]


def _fields(x: Any) -> dict[str, dataclasses.Field]:
    return {f.name: f for f in dataclasses.fields(x)}


def _make_change(x: Any, kind: str, n: int, sources: list) -> dict | None:
    fs = _fields(x)
    if kind == "prop":
        if "v" in fs:
            return {"v": (x.v if isinstance(x.v, int) and not isinstance(x.v, bool) else 0) + 1 + n % 2}
        if "a" in fs:
            return {"a": x.a + "!"}
        if "i" in fs and isinstance(x.i, int):
            return {"i": x.i + 1}
        return None
    if kind == "noncompare":
        return {"nc": x.nc + "~"} if "nc" in fs else None
    cn = type(x).__name__
    if kind == "child":
        for f in M.child_fields(cn) if cn in M.BY_NAME else []:
            if f.kind in ("one", "opt") and "Base" in f.classes:
                return {f.name: M.cls("LeafB")(v=50 + n % 3)}
        return None
    if kind == "tuple":
        for f in M.child_fields(cn) if cn in M.BY_NAME else []:
            if f.kind == "tuple":
                cur = getattr(x, f.name)
                new = M.cls("LeafA")(v=60 + n % 3)
                return {f.name: (cur[1:] + (new,)) if n % 2 and cur else (new, *cur)}
        return None
    if kind == "twin_child":
        # a child replaced by a new object of the same content and origin (the new parent is == to the old
        # one and takes over its id, but holds other objects)
        for f in M.child_fields(cn) if cn in M.BY_NAME else []:
            cur = getattr(x, f.name)
            if f.kind in ("one", "opt") and cur is not None:
                return {f.name: type(cur)(**{g.name: getattr(cur, g.name) for g in dataclasses.fields(cur) if g.init})}
            if f.kind == "tuple" and cur:
                c0 = cur[0]
                return {f.name: (type(c0)(**{g.name: getattr(c0, g.name) for g in dataclasses.fields(c0) if g.init}), *cur[1:])}
        return None
    if kind == "origin":
        cands = [["code", 1, 2, 5], ["gen", 2], ["xml", 3, "/z"], ["no"]]
        cur = og.origin_spec_of(x.origin, sources)
        spec = next(c for c in cands[n % 4:] + cands if c != cur)
        return {"origin": og.build_origin(spec, sources)}
    raise ValueError(kind)


def _sig(n: Any, sources: list) -> Any:
    kids = tuple((c.content_id, str(og.origin_spec_of(c.origin, sources))) for c, _, _ in T.live_children(n))
    return (type(n).__name__, str(og.origin_spec_of(n.origin, sources)), T.live_key(n), kids)


def check_case(data: dict, lab: Labels) -> None:
    from pyoak.node import ASTNode

    spec = data["tree"]
    if data["op"] != "duplicate" and CHANGES[data["c1"] % len(CHANGES)] == "noncompare":
        from pbt.props import c01

        spec = c01._graft(spec, "noncompare_only", data["n"])
    b, root_e, ex = T.build(spec)
    sources = b.sources
    nodes_e = T.nodes_preorder(root_e)
    want = {"noncompare": ("Vals", "SerVals"),
            "twin_child": tuple(c.name for c in M.TABLE if M.child_fields(c.name)),
            "child": tuple(c.name for c in M.TABLE if any(f.kind in ("one", "opt") and "Base" in f.classes for f in M.child_fields(c.name))),
            "tuple": tuple(c.name for c in M.TABLE if any(f.kind == "tuple" for f in M.child_fields(c.name))),
            }.get(CHANGES[data["c1"] % len(CHANGES)])
    cands = [e for e in nodes_e if want and e.cls in want] if data["op"] != "duplicate" else \
        [e for e in nodes_e if any(True for _ in e.children())]
    if not cands or data["subject"] % 5 == 0:
        cands = nodes_e
    subj_e = cands[data["subject"] % len(cands)]
    x = b.of(subj_e)
    all_live: list[Any] = list({id(n): n for n in T.live_nodes(b.root)}.values())
    detached: set[int] = {id(b.of(e)) for e in ex.done if e.det}
    lab.tag_if(bool(detached), "tree-contains-detached-nodes")
    if data.get("churn"):
        # between the construction of the tree and the copy: hundreds of unrelated property values go
        # through the library, then nodes whose tuple values are `==` to the tree's but of other element
        # types ((1.0, 2.0) for (1, 2)); a copy made afterwards is still digested from its own values
        for i in range(data["churn"]):
            M.cls("LeafA")(v=10**6 + i)
            M.cls("Strs")(a=f"churn-{i}")
        n_tw = 0
        for n in all_live:
            if type(n).__name__ == "Vals":
                if n.t and all(type(e) is int for e in n.t):
                    M.cls("Vals")(t=tuple(float(e) for e in n.t))
                    n_tw += 1
                if type(n.ft[0]) is int:
                    M.cls("Vals")(ft=(float(n.ft[0]), n.ft[1]))
                    n_tw += 1
        lab.tag_if(n_tw > 0, "churn-then-equal-values-of-other-types")
    if id(x) in detached:
        lab.tag("subject-detached")

    def registered(n: Any) -> bool:
        return id(n) not in detached

    # pre-ops
    twins = []
    if data["detach"] and data.get("detach_first"):
        x.detach_self()
        detached.add(id(x))
        lab.tag("subject-detached", "detached-before-twins")
    for _ in range(data["twins"]):
        kw = {f.name: getattr(x, f.name) for f in dataclasses.fields(x) if f.init}
        t = type(x)(**kw)
        twins.append(t)
        all_live.append(t)
    if data["detach"] and not data.get("detach_first"):
        x.detach_self()
        detached.add(id(x))
        lab.tag("subject-detached")
    if twins and data.get("subject_is_twin"):
        # the subject is the later twin (its id carries a suffix while the base id may be free again)
        x = twins[data["n"] % len(twins)]
        lab.tag("subject-is-suffixed-twin")
        lab.tag_if(len(twins) >= 10, "ten-or-more-twins")
    lab.tag_if(bool(twins), "twin-registered")
    has_tuple = any(i is not None for _, _, i in T.live_children(x))
    lab.tag_if(has_tuple, "tuple-child")
    depth = T.depth_of_tree(subj_e)
    lab.tag(data["op"])
    lab.nontrivial = (has_tuple and depth >= 2) or bool(twins) or data["detach"]

    orig_ids = {id(n) for n in T.live_nodes(x)}
    reg_ids_before = {n.id for n in all_live if registered(n)}

    if data["op"] == "duplicate":
        d = x.duplicate()
        require(d == x and x == d, "duplicate-equal", "dup != original")
        require(d is not x, "duplicate-new-root", "")
        seen_dup: set[int] = set()

        def rec(o: Any, n: Any, path: str) -> None:
            require(type(n) is type(o), "duplicate-class", path)
            require(n.content_id == o.content_id, "duplicate-content_id", path)
            require(n.origin == o.origin, "duplicate-origin", path)
            for f in dataclasses.fields(o):
                if f.name in ("id", "content_id", "origin"):
                    continue
                vo, vn = getattr(o, f.name), getattr(n, f.name)
                if isinstance(vo, ASTNode) or (isinstance(vo, tuple) and vo and isinstance(vo[0], ASTNode)):
                    continue
                require(T.typed_value(vo) == T.typed_value(vn), "duplicate-property", f"{path}.{f.name}: {vo!r} vs {vn!r}")
            require(id(n) not in orig_ids, "duplicate-shares-object", f"{path}: {type(n).__name__} is an object of the original tree")
            require(id(n) not in seen_dup or True, "duplicate", path)
            seen_dup.add(id(n))
            require(ASTNode.get_any(n.id) is n, "duplicate-registered", f"{path}: {n.id}")
            require(n.id not in reg_ids_before, "duplicate-id-of-registered-original", f"{path}: {n.id}")
            oc, nc = T.live_children(o), T.live_children(n)
            require([(f, i) for _, f, i in oc] == [(f, i) for _, f, i in nc], "duplicate-shape", path)
            for (a, f, i), (c, _, _) in zip(oc, nc):
                rec(a, c, f"{path}.{f}[{i}]")

        rec(x, d, "root")
        # originals untouched in the registry
        for n in all_live:
            if registered(n):
                require(ASTNode.get_any(n.id) is n, "duplicate-evicted-original", n.id)
        return

    # replace family
    kinds = [CHANGES[data["c1"] % len(CHANGES)]]
    if data["two"]:
        kinds.append(CHANGES[data["c2"] % len(CHANGES)])
    change: dict = {}
    applied = []
    for k in kinds:
        c = _make_change(x, k, data["n"], sources)
        if c is None:
            c = _make_change(x, "origin", data["n"], sources)
            k = "origin"
        if not (set(c) & set(change)):
            change.update(c)
            applied.append(k)
    lab.tag(*("change-" + k for k in applied))
    for v in change.values():
        for n in ([v] if isinstance(v, ASTNode) else (v if isinstance(v, tuple) else [])):
            if isinstance(n, ASTNode) and id(n) not in {id(a) for a in all_live}:
                all_live.append(n)
    x_registered = registered(x)
    before_children = list(x.children) if "children" not in {f.name for f in dataclasses.fields(x)} else None  # (asked before the operation)
    sig_x = _sig(x, sources)
    twin_registered = any(registered(n) and n is not x and _sig(n, sources) == sig_x for n in all_live)

    if data["op"] == "replace":
        try:
            n = x.replace(**change)
        except TypeError as e:
            # every init field can be given, whatever it is called (`self`, `node`, `cls`, ...)
            require("multiple values for argument" not in str(e), "replace-refuses-a-field-by-its-name",
                    f"{type(x).__name__}.replace({', '.join(change)}=...): {e}")
            raise
        detached.add(id(x))
        require(ASTNode.get_any(x.id) is not x, "replace-original-still-registered", x.id)
    else:
        n = dataclasses.replace(x, **change)
        if x_registered:
            require(ASTNode.get_any(x.id) is x, "dc-replace-unregistered-original", x.id)
            require(n.id != x.id, "dc-replace-same-id", n.id)
    require(type(n) is type(x) and n is not x, "replace-class", "")
    for f in dataclasses.fields(x):
        if f.name in change:
            require(getattr(n, f.name) is change[f.name], "replace-changed-field", f.name)
        elif f.init:
            require(getattr(n, f.name) is getattr(x, f.name), "replace-untouched-field-identity", f.name)
    require(ASTNode.get_any(n.id) is n, "replace-result-registered", n.id)
    if before_children is not None:
        own = [c for c, _, _ in T.live_children(n)]
        got_ch = n.children
        require(len(got_ch) == len(own) and all(a is b_ for a, b_ in zip(got_ch, own)), "replace-result-children",
                "the new node's `children` are not the objects its own fields hold")
        again = x.children
        require(len(again) == len(before_children) and all(a is b_ for a, b_ in zip(again, before_children)),
                "replace-changed-original-children", "")
    for m in all_live:
        if registered(m) and m is not n:
            require(ASTNode.get_any(m.id) is m, "replace-evicted-other-node", f"{type(m).__name__} {m.id}")
    if data["op"] == "replace":
        # the parenthetical "keeps the original's id" is a corollary of the rebuild rule and only
        # follows when the original carries the un-suffixed digest (a suffixed id whose lower
        # slots were freed in the meantime is legitimately not re-used; see DESIGN.md section 7)
        if x_registered and set(applied) == {"noncompare"} and not twin_registered and "_" not in x.id:
            require(n.id == x.id, "replace-keeps-id", f"{n.id} vs original {x.id}")
            lab.tag("keeps-original-id")
        # metamorphic rebuild
        nid = n.id
        n.detach_self()
        kw = {f.name: getattr(n, f.name) for f in dataclasses.fields(n) if f.init}
        m2 = type(n)(**kw)
        require(m2.id == nid, "replace-id-vs-fresh-construction", f"replace gave {nid}, fresh construction gives {m2.id}")


def st_case(ctx: Ctx):
    g = T.TreeGen(leaves=ctx.pick(8, 12), origin_rate=0.3, extra_leaves=("Vals", "Vals", "Vals"), detach_rate=0.12)
    return st.fixed_dictionaries(
        {
            "tree": st.one_of(g.inner_tree(), g.inner_tree(), g.tree()),
            "subject": st.integers(0, 60),
            "twins": st.sampled_from([0, 0, 1, 2, 1, 2, 12]),
            "detach": st.sampled_from([False, False, True]),
            "detach_first": st.booleans(),
            "subject_is_twin": st.sampled_from([False, False, True]),
            "op": st.sampled_from(["duplicate", "replace", "replace", "dc_replace"]),
            "c1": st.integers(0, 5),
            "c2": st.integers(0, 5),
            "two": st.booleans(),
            "n": st.integers(0, 100),
            "churn": st.sampled_from([0, 0, 0, 0, 0, 0, 300]),
        }
    )


PARTS = [Part("cases", check_case, strategy=st_case, quick=16000, thorough=360000)]
