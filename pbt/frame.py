"""Frame-condition snapshots of existing nodes (used by C09, C10)."""
from __future__ import annotations

import dataclasses
from typing import Any

from pbt import trees as T


def snap_node(n: Any) -> tuple:
    from pyoak.node import ASTNode

    fields = []
    for f in dataclasses.fields(n):
        v = getattr(n, f.name)
        if isinstance(v, ASTNode):
            fields.append((f.name, "node", id(v)))
        elif isinstance(v, tuple) and v and all(isinstance(x, ASTNode) for x in v):
            fields.append((f.name, "nodes", id(v), tuple(id(x) for x in v)))
        elif f.name == "origin":
            # identity and deep value: an origin (e.g. the member list of a multi-origin) must not be
            # changed in place either
            fields.append((f.name, "origin", id(v), repr(v), getattr(v, "fqn", None)))
        else:
            fields.append((f.name, "value", T.typed_value(v), id(v) if isinstance(v, (tuple, frozenset)) else None))
    return (id(n), type(n), hash(n), n.id, n.content_id, tuple(fields))


class Snapshot:
    """holds strong references to the nodes it describes (so id()s stay valid)."""

    def __init__(self, nodes: list[Any]) -> None:
        self.nodes = list({id(n): n for n in nodes}.values())
        self.snaps = [snap_node(n) for n in self.nodes]

    def add(self, nodes: list[Any]) -> None:
        have = {id(n) for n in self.nodes}
        for n in nodes:
            if id(n) not in have:
                have.add(id(n))
                self.nodes.append(n)
                self.snaps.append(snap_node(n))

    def diff(self) -> str | None:
        for n, s in zip(self.nodes, self.snaps):
            try:
                cur = snap_node(n)
            except Exception as e:  # noqa: BLE001
                return f"{type(n).__name__}: snapshot raised {type(e).__name__}: {e}"
            if cur != s:
                what = []
                if cur[2] != s[2]:
                    what.append("hash")
                if cur[3] != s[3]:
                    what.append(f"id {s[3]}->{cur[3]}")
                if cur[4] != s[4]:
                    what.append(f"content_id {s[4]}->{cur[4]}")
                for a, b in zip(cur[5], s[5]):
                    if a != b:
                        what.append(f"field {a[0]}")
                return f"{type(n).__name__} {s[3]}: changed {', '.join(what)}"
        return None
