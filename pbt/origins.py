"""Origin specs (plain data) and their realisation as pyoak origins.

spec ::= ["no"] | ["code", src, lo, hi] | ["gen", src] | ["xml", src, path] | ["whole", src]
       | ["multi", [spec, spec, ...]]          (flat: members are never "multi"/"no")

Sources 0..2 are in-memory text sources with explicit uris and a fixed text, source 3 is a
plain `Source`. A code point's (line, column) is a function of its index in the text, so
point equality coincides with index equality.
"""
from __future__ import annotations

from typing import Any

TEXTS = [
    "alpha beta\ngamma delta epsilon\n\nzeta eta theta iota kappa\nlambda mu\n" * 3,
    "def f(x):\n    return x + 1\n\nprint(f(41))\n# the end\n" * 4,
    "one\ntwo\nthree\nfour\nfive\nsix\nseven\neight\nnine\nten\n" * 4,
]
N_SOURCES = 4
MAX_INDEX = min(len(t) for t in TEXTS)


def point_of(text: str, index: int) -> tuple[int, int, int]:
    """(index, line, column) of a position in a text."""
    before = text[:index]
    line = before.count("\n") + 1
    col = index - (before.rfind("\n") + 1)
    return index, line, col


def make_sources() -> list[Any]:
    from pyoak.origin import MemoryTextSource, Source

    srcs: list[Any] = [
        MemoryTextSource(TEXTS[i], source_uri=f"mem://s{i}") for i in range(3)
    ]
    srcs.append(Source(source_uri="urn:plain:s3", source_type="plain"))
    return srcs


_REV_CLS: list = []


def rev_source_cls() -> Any:
    """a user-defined source class: an in-memory text source with one more compared field"""
    if not _REV_CLS:
        from dataclasses import dataclass, field

        from pyoak.origin import MemoryTextSource

        @dataclass(frozen=True)
        class RevSource(MemoryTextSource):
            rev: int = field(default=0, kw_only=True)

        _REV_CLS.append(RevSource)
    return _REV_CLS[0]


def source_text(i: int) -> str | None:
    return TEXTS[i] if i < 3 else None


def make_range(text: str | None, lo: int, hi: int) -> Any:
    from pyoak.origin import CodePoint, CodeRange

    t = text if text is not None else TEXTS[0]
    return CodeRange(start=CodePoint(*point_of(t, lo)), end=CodePoint(*point_of(t, hi)))


def build_origin(spec: list, sources: list[Any], fresh: bool = False) -> Any:
    """`fresh`: every simple origin gets its own (equal but distinct) source objects."""
    from pyoak.origin import (
        NO_ORIGIN,
        CodeOrigin,
        GeneratedCodeOrigin,
        MultiOrigin,
        XMLFileOrigin,
        XMLPath,
    )

    kind = spec[0]
    if fresh and kind != "multi":
        sources = make_sources()
    if kind == "no":
        return NO_ORIGIN
    if kind == "code":
        _, s, lo, hi = spec
        return CodeOrigin(source=sources[s], position=make_range(source_text(s), lo, hi))
    if kind == "gen":
        return GeneratedCodeOrigin(source=sources[spec[1]])
    if kind == "rev":  # generated origin over a source of a user-defined class; sources differ in `rev` only
        return GeneratedCodeOrigin(source=rev_source_cls()(TEXTS[0], source_uri="mem://rev", rev=spec[1]))
    if kind == "whole":  # the plain base class with the whole-source position singleton
        from pyoak.origin import EntireSourcePosition, Origin

        return Origin(source=sources[spec[1]], position=EntireSourcePosition())
    if kind == "xml":
        return XMLFileOrigin(source=sources[spec[1]], position=XMLPath(spec[2]))
    if kind == "multi":
        members = [build_origin(m, sources, fresh) for m in spec[1]]
        if len(members) >= 3 and sum(len(str(m)) for m in spec[1]) % 2:
            # the way user code arrives at them: a multi-origin extended with `+` (same result as
            # the list below: nothing is merged, `+` on a multi-origin only appends)
            from pyoak.origin import merge_origins

            acc = merge_origins(members[0], members[1])
            for m in members[2:]:
                acc = acc + m
            return acc
        # built with a list exactly as merge_origins does
        return MultiOrigin(origins=members)
    raise ValueError(f"bad origin spec {spec!r}")


def origin_spec_of(o: Any, sources: list[Any]) -> list:
    """Canonical spec of a live origin (inverse of build_origin), independent of `==`."""
    from pyoak import origin as O

    def src_index(s: Any) -> Any:
        for i, x in enumerate(sources):
            if type(s) is type(x) and s.source_uri == x.source_uri and s.source_type == x.source_type:
                return i
        return ["foreign", type(s).__name__, s.source_uri, s.source_type]

    if type(o) is O.NoOrigin:
        return ["no"]
    if type(o) is O.GeneratedCodeOrigin and type(o.source).__name__ == "RevSource":
        return ["rev", o.source.rev]
    if type(o) is O.GeneratedCodeOrigin:
        return ["gen", src_index(o.source)]
    if type(o) is O.CodeOrigin:
        return ["code", src_index(o.source), o.position.start.index, o.position.end.index]
    if type(o) is O.XMLFileOrigin:
        return ["xml", src_index(o.source), o.position.xpath]
    if type(o) is O.Origin and type(o.position) is O.EntireSourcePosition:
        return ["whole", src_index(o.source)]
    if type(o) is O.MultiOrigin:
        return ["multi", [origin_spec_of(m, sources) for m in o.origins]]
    return ["other", type(o).__name__]


# ---------------------------------------------------------------------------
# Hypothesis strategies
# ---------------------------------------------------------------------------


def st_simple_origin(max_index: int = 40):
    from hypothesis import strategies as st

    idx = st.integers(0, max_index)
    code = st.tuples(st.integers(0, 2), idx, idx).map(
        lambda t: ["code", t[0], min(t[1], t[2]), max(t[1], t[2])]
    )
    gen = st.integers(0, 3).map(lambda s: ["gen", s])
    xml = st.tuples(st.integers(0, 3), st.sampled_from(["/a", "/a/b[1]", "/a/@x", "//c"])).map(
        lambda t: ["xml", t[0], t[1]]
    )
    whole = st.integers(0, 3).map(lambda s: ["whole", s])
    return st.one_of(code, code, code, gen, gen, xml, xml, whole)


def st_origin(max_index: int = 40, allow_no: bool = True, rev: bool = False):
    from hypothesis import strategies as st

    simple = st_simple_origin(max_index)
    if rev:
        simple = st.one_of(simple, simple, simple, st.integers(1, 2).map(lambda k: ["rev", k]))
    multi = st.lists(simple, min_size=2, max_size=4).map(lambda ms: ["multi", ms])
    opts = [simple, simple, simple, multi]
    if allow_no:
        opts.append(st.just(["no"]))
    return st.one_of(*opts)
