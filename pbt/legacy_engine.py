"""Operation engine for the legacy parent-aware nodes (C18: successful histories, C19: rejected ops).

Programs are lists of op descriptors whose operands are selectors resolved at run time against the
currently *eligible* operands (so valid operands are constructed, not filtered). The engine keeps
strong references to every node it ever created (`held`), including detached and stale ones.
Structure is always read with its own reflection over the class table of models_legacy.
"""
from __future__ import annotations

import warnings
from typing import Any

from pbt import models_legacy as L
from pbt import origins as og
from pbt.runtime import Labels, require

ORIGINS = [["no"], ["no"], ["code", 0, 0, 1], ["gen", 1]]


def documented_errors() -> tuple:
    from pyoak.legacy import error as E

    return (E.ASTNodeDuplicateChildrenError, E.ASTNodeParentCollisionError, E.ASTNodeRegistryCollisionError,
            E.ASTNodeIDCollisionError, E.ASTNodeReplaceError, E.ASTNodeReplaceWithError, E.ASTTransformError)


def kids(n: Any) -> list[tuple[Any, str, int | None]]:
    out = []
    for fn, kind in L.CHILD_FIELDS[type(n).__name__]:
        v = getattr(n, fn)
        if v is None:
            continue
        if kind == "one":
            out.append((v, fn, None))
        else:
            out.extend((x, fn, i) for i, x in enumerate(v))
    return out


def subtree(n: Any) -> list[Any]:
    out = [n]
    for c, _, _ in kids(n):
        out.extend(subtree(c))
    return out


def shape(n: Any) -> tuple:
    """content shape (class, comparable props, children shapes) from own reflection"""
    return (type(n).__name__, tuple((p, getattr(n, p)) for p in L.PROP_FIELDS[type(n).__name__]),
            tuple((fn, i, shape(c)) for c, fn, i in kids(n)))


class World:
    def __init__(self, lab: Labels) -> None:
        L.load()
        self.lab = lab
        self.sources = og.make_sources()
        self.held: list[Any] = []
        self.step_no = 0
        self.fresh = 0

    # ----------------------------------------------------------------- state helpers
    def hold(self, n: Any) -> Any:
        known = {id(x) for x in self.held}
        for x in subtree(n):
            if id(x) not in known:
                known.add(id(x))
                self.held.append(x)
        return n

    def attached(self, n: Any) -> bool:
        return not n.detached

    def free_id(self, i: str) -> bool:
        from pyoak.legacy.node import AwareASTNode

        return AwareASTNode.get_any(i) is None

    def attachable(self, n: Any) -> bool:
        """a detached node whose subtree consists of distinct objects, each either detached with a free,
        unrepeated id or an attached *root* (which is adopted together with everything below it)"""
        if not n.detached:
            return False
        seen_obj: set[int] = set()
        ids: set[str] = set()

        def rec(x: Any) -> bool:
            if id(x) in seen_obj:
                return False
            seen_obj.add(id(x))
            if not x.detached:
                return x.parent is None  # an attached root below a detached node (re-attached on its own earlier)
            if x.id in ids or not self.free_id(x.id):
                return False
            ids.add(x.id)
            return all(rec(c) for c, _, _ in kids(x))

        return rec(n)

    def eligible_children(self, exclude: set[int], want: tuple[str, ...] | None = None) -> list[Any]:
        out = []
        for n in self.held:
            if id(n) in exclude:
                continue
            if want is not None and not any(L.is_subclass(type(n).__name__, w) for w in want):
                continue
            if self.attached(n):
                if n.parent is None:
                    out.append(n)
            elif self.attachable(n):
                out.append(n)
        return out

    def pick_children(self, sels: list[int], exclude: set[int], want: tuple[str, ...] | None = None) -> list[Any]:
        """distinct eligible operands with pairwise disjoint subtrees"""
        chosen: list[Any] = []
        used: set[int] = set(exclude)
        used_ids: set[str] = set()
        for s in sels:
            cands = [n for n in self.eligible_children(used, want)
                     if not ({id(x) for x in subtree(n)} & used) and not ({x.id for x in subtree(n)} & used_ids)]
            if not cands:
                break
            n = cands[s % len(cands)]
            chosen.append(n)
            used |= {id(x) for x in subtree(n)}
            used_ids |= {x.id for x in subtree(n)}
        return chosen

    def origin(self, k: int) -> Any:
        return og.build_origin(ORIGINS[k % len(ORIGINS)], self.sources)

    def sel(self, s: int, pred=None) -> Any | None:
        c = [n for n in self.held if pred is None or pred(n)]
        return c[s % len(c)] if c else None

    def ancestors_of(self, n: Any) -> list[Any]:
        """via own downward walk from attached roots"""
        pm = self.parent_map()
        out = []
        cur = pm.get(id(n))
        while cur is not None:
            out.append(cur[0])
            cur = pm.get(id(cur[0]))
        return out

    def parent_map(self) -> dict[int, tuple[Any, str, int | None]]:
        pm: dict[int, tuple] = {}
        for r in self.held:
            if self.attached(r):
                for c, fn, i in kids(r):
                    pm[id(c)] = (r, fn, i)
        return pm

    # ----------------------------------------------------------------- invariants (C18)
    def invariants(self) -> None:
        from pyoak.legacy.node import AwareASTNode

        with warnings.catch_warnings():
            warnings.simplefilter("ignore", DeprecationWarning)
            self._invariants(AwareASTNode)

    def _invariants(self, AwareASTNode: Any) -> None:
        att = [n for n in self.held if self.attached(n)]
        where: dict[int, list] = {}
        for p in att:
            for c, fn, i in kids(p):
                where.setdefault(id(c), []).append((p, fn, i))
                require(self.attached(c), "attached-node-has-detached-child",
                        f"step {self.step_no}: {type(p).__name__} {p.id[:8]} field {fn}[{i}] holds a detached {type(c).__name__}")
                require(c.parent is p, "child-does-not-report-parent",
                        f"step {self.step_no}: {type(c).__name__} {c.id[:8]} stored in {type(p).__name__} {p.id[:8]}.{fn}[{i}] "
                        f"reports parent {getattr(c.parent, 'id', None) and c.parent.id[:8]}")
                require(c.parent_field is not None and c.parent_field.name == fn and c.parent_index == i,
                        "child-reports-wrong-position",
                        f"step {self.step_no}: stored at {fn}[{i}], reports "
                        f"{getattr(c.parent_field, 'name', None)}[{c.parent_index}]")
        for n in att:
            require(len(where.get(id(n), [])) <= 1, "node-at-two-positions", f"step {self.step_no}")
            p = n.parent
            if p is not None:
                require(self.attached(p), "parent-detached", f"step {self.step_no}")
                pos = where.get(id(n))
                require(bool(pos) and pos[0][0] is p, "attached-node-not-stored-in-its-parent",
                        f"step {self.step_no}: {type(n).__name__} {n.id[:8]} reports parent {p.id[:8]} "
                        f"({n.parent_field and n.parent_field.name}[{n.parent_index}]) which does not hold it")
            else:
                require(id(n) not in where, "stored-child-reports-no-parent", f"step {self.step_no}")
            require(AwareASTNode.get_any(n.id) is n, "lookup-attached", f"step {self.step_no} {n.id[:8]}")
            require(type(n).get(n.id) is n, "lookup-attached-get", f"step {self.step_no} {n.id[:8]}")
        ids = [n.id for n in att]
        require(len(set(ids)) == len(ids), "attached-ids-not-unique", f"step {self.step_no}")
        # content ids vs an independent rebuild, ancestors / depth / is_ancestor / xpath vs the structure
        roots = [n for n in att if n.parent is None]
        pm = self.parent_map()
        for r in roots:
            copy_of: dict[int, Any] = {}
            self.rebuild(r, copy_of)
            st = subtree(r)
            for n in st:
                require(n.content_id == copy_of[id(n)].content_id, "content_id-not-propagated",
                        f"step {self.step_no}: {type(n).__name__} {n.id[:8]} (depth {len(self.chain(n, pm))}) has a stale content_id")
            require(r.calculate_xpath() is True, "calculate_xpath-root", f"step {self.step_no}")
            for n in st:
                ch = self.chain(n, pm)
                anc = list(n.ancestors())
                require(len(anc) == len(ch) and all(a is b for a, b in zip(anc, ch)), "ancestors",
                        f"step {self.step_no}: {type(n).__name__} {n.id[:8]}: {len(anc)} ancestors, structure has {len(ch)}")
                require(n.get_depth() == len(ch), "get_depth", f"step {self.step_no}: {n.get_depth()} vs {len(ch)}")
                exp_x = "".join(f"/@{f}[{i if i is not None else 0}]{c}" for f, i, c in self.spelled(n, pm))
                require(n.xpath == exp_x, "xpath", f"step {self.step_no}: {n.xpath!r} vs {exp_x!r}")
            for n in st[:12]:
                ch = self.chain(n, pm)
                for m in st[:12]:
                    exp = any(m is a for a in ch)
                    require(m.is_ancestor(n) is exp, "is_ancestor",
                            f"step {self.step_no}: {type(m).__name__} {m.id[:8]}.is_ancestor({type(n).__name__} {n.id[:8]}) "
                            f"-> {m.is_ancestor(n)}, structure says {exp}")
                    if exp:
                        d = next(k for k, a in enumerate(ch) if a is m) + 1
                        require(n.get_depth(relative_to=m) == d, "get_depth-relative", f"step {self.step_no}")
                        require(n.get_depth(m, False) == d, "get_depth-relative", f"step {self.step_no} (check_ancestor=False)")
                    else:
                        # "up to relative_to (if it is the ancestor at all)": a non-ancestor is never met
                        require(n.get_depth(m, False) == len(ch), "get_depth-relative-non-ancestor",
                                f"step {self.step_no}: check_ancestor=False with a non-ancestor gives {n.get_depth(m, False)}, "
                                f"absolute depth is {len(ch)}")
                for cname in ("LInner", "LReq"):
                    exp_a = next((a for a in ch if L.is_subclass(type(a).__name__, cname)), None)
                    require(n.get_first_ancestor_of_type(L.cls(cname)) is exp_a, "get_first_ancestor_of_type",
                            f"step {self.step_no}")
                    exp_x = next((a for a in ch if type(a).__name__ == cname), None)
                    require(n.get_first_ancestor_of_type(L.cls(cname), exact_type=True) is exp_x,
                            "get_first_ancestor_of_type-exact", f"step {self.step_no}")

    def chain(self, n: Any, pm: dict) -> list[Any]:
        out = []
        cur = pm.get(id(n))
        while cur is not None:
            out.append(cur[0])
            cur = pm.get(id(cur[0]))
        return out

    def spelled(self, n: Any, pm: dict) -> list[tuple]:
        out = []
        cur = n
        while True:
            p = pm.get(id(cur))
            if p is None:
                out.append(("root", 0, type(cur).__name__))
                break
            out.append((p[1], p[2], type(cur).__name__))
            cur = p[0]
        return list(reversed(out))

    def rebuild(self, n: Any, copy_of: dict[int, Any]) -> Any:
        """independent detached copy of a subtree (own builder, explicit fresh ids; never duplicate())"""
        kw: dict = {}
        for fn, kind in L.CHILD_FIELDS[type(n).__name__]:
            v = getattr(n, fn)
            if kind == "one":
                kw[fn] = None if v is None else self.rebuild(v, copy_of)
            elif kind == "otuple":
                kw[fn] = None if v is None else tuple(self.rebuild(x, copy_of) for x in v)
            elif kind == "tuple":
                kw[fn] = tuple(self.rebuild(x, copy_of) for x in v)
            else:
                kw[fn] = [self.rebuild(x, copy_of) for x in v]
        for p in L.PROP_FIELDS[type(n).__name__]:
            kw[p] = getattr(n, p)
        self.fresh += 1
        c = type(n)(origin=n.origin, id=f"rebuild-{self.fresh}", create_detached=True, **kw)
        copy_of[id(n)] = c
        return c

    # ----------------------------------------------------------------- snapshot (C19)
    def snapshot(self) -> tuple[list, dict]:
        from pyoak.legacy.node import AwareASTNode

        snaps = []
        for n in self.held:
            p = n.parent
            fields = []
            for fn, kind in L.CHILD_FIELDS[type(n).__name__]:
                v = getattr(n, fn)
                fields.append((fn, id(v) if kind == "one" or v is None else (type(v).__name__, tuple(id(x) for x in v))))
            for pn in L.PROP_FIELDS[type(n).__name__]:
                fields.append((pn, getattr(n, pn)))
            snaps.append((
                id(n), not n.detached, id(p) if p is not None else None,
                (n.parent_field.name, n.parent_index) if p is not None and n.parent_field is not None else None,
                tuple(fields), n.id, n.original_id, n.content_id, id(n.origin),
            ))
        table = {n.id: id(AwareASTNode.get_any(n.id)) if AwareASTNode.get_any(n.id) is not None else None for n in self.held}
        return snaps, table

    @staticmethod
    def describe_diff(before: tuple, after: tuple) -> str | None:
        names = ["object", "attached", "parent", "position-in-parent", "field values", "id", "original_id", "content_id", "origin"]
        for b, a in zip(before[0], after[0]):
            if b != a:
                what = [names[k] for k in range(len(b)) if b[k] != a[k]]
                return f"node with id {b[5][:8]}: changed {', '.join(what)} (was attached={b[1]})"
        if before[1] != after[1]:
            ch = [k[:8] for k in before[1] if before[1][k] != after[1].get(k)]
            return f"lookup table changed for ids {ch[:4]}"
        return None
