"""Client side of pbt/worker.py: persistent worker subprocesses with chosen hash seeds."""
from __future__ import annotations

import atexit
import json
import os
import subprocess
from typing import Any

from pbt.runtime import HarnessError, VERIF_DIR

_WORKERS: dict[tuple, "Worker"] = {}


class Worker:
    def __init__(self, hashseed: int, perm_seed: int | None) -> None:
        env = dict(os.environ, PYTHONHASHSEED=str(hashseed))
        if perm_seed is not None:
            env["VERIF_PERM_SEED"] = str(perm_seed)
        else:
            env.pop("VERIF_PERM_SEED", None)
        self.p = subprocess.Popen(
            ["/venv/bin/python", os.path.join(VERIF_DIR, "pbt", "worker.py")],
            stdin=subprocess.PIPE, stdout=subprocess.PIPE, stderr=subprocess.DEVNULL,
            env=env, text=True, bufsize=1,
        )
        self.hashseed = hashseed
        self.perm_seed = perm_seed

    def call(self, req: dict) -> dict:
        try:
            self.p.stdin.write(json.dumps(req) + "\n")
            self.p.stdin.flush()
            line = self.p.stdout.readline()
        except (BrokenPipeError, OSError) as e:
            raise HarnessError(f"worker died: {e}") from e
        if not line:
            raise HarnessError("worker closed its output")
        return json.loads(line)

    def close(self) -> None:
        try:
            self.p.stdin.close()
            self.p.wait(timeout=5)
        except Exception:  # noqa: BLE001
            self.p.kill()


def get_worker(hashseed: int, perm_seed: int | None) -> Worker:
    key = (hashseed, perm_seed)
    w = _WORKERS.get(key)
    if w is None or w.p.poll() is not None:
        w = Worker(hashseed, perm_seed)
        _WORKERS[key] = w
    return w


@atexit.register
def _close_all() -> None:
    for w in _WORKERS.values():
        w.close()
    _WORKERS.clear()
