"""XPath ASTs, rendering, and the reference semantics shared by C07, C17 and C20.

step := {"field": str|None, "index": None | "" | "<digits>", "cls": str|None}
An all-None step is the `//` marker (an empty grammar element). `relative` paths are written
without the leading slash and mean the same as the path prefixed with `//`.
"""
from __future__ import annotations

from typing import Any, Callable


def is_marker(s: dict) -> bool:
    return s.get("field") is None and s.get("index") is None and s.get("cls") is None


def render(steps: list[dict], relative: bool = False, ws: int = 0) -> str:
    """ws: bit i set -> a blank is inserted at the i-th admissible token boundary."""
    toks: list[str] = []
    for k, s in enumerate(steps):
        if not (relative and k == 0):
            toks.append("/")
        if s.get("field") is not None:
            toks.append("@")
            toks.append(s["field"])
        if s.get("index") is not None:
            toks.append("[")
            if s["index"] != "":
                toks.append(s["index"])
            toks.append("]")
        if s.get("cls") is not None:
            toks.append(s["cls"])
    out = ""
    for i, t in enumerate(toks):
        if i > 0:
            prev = toks[i - 1]
            word = lambda c: c.isalnum() or c == "_"  # noqa: E731
            if word(prev[-1]) and word(t[0]):
                out += " "  # two names must be separated
            elif ws >> (i - 1) & 1:
                out += " "  # optional blank between two tokens (never before the first token)
        out += t
    return out


def real_steps(steps: list[dict], relative: bool) -> list[tuple[dict, bool]]:
    """(step, anywhere) for the non-marker steps."""
    out = []
    anywhere = relative
    for s in steps:
        if is_marker(s):
            anywhere = True
            continue
        out.append((s, anywhere))
        anywhere = False
    return out


def step_matches(s: dict, el: tuple[str | None, int | None, str], is_sub: Callable[[str, str], bool]) -> bool:
    field, index, cls = el
    if s.get("cls") is not None and not is_sub(cls, s["cls"]):
        return False
    if s.get("field") is not None and s["field"] != field:
        return False
    if s.get("index") not in (None, ""):
        if index is None or int(s["index"]) != index:
            return False
    return True


def matches(steps: list[dict], relative: bool, chain: list[tuple[str | None, int | None, str]],
            is_sub: Callable[[str, str], bool]) -> bool:
    """chain: (field, index, class) from the root (field None, index None) down to the node."""
    rs = real_steps(steps, relative)
    if not rs:
        return False
    m = len(chain) - 1
    # reach[i] = set of chain positions at which step i can sit
    prev: set[int] | None = None
    for i, (s, anywhere) in enumerate(rs):
        cur: set[int] = set()
        for p in range(len(chain)):
            if not step_matches(s, chain[p], is_sub):
                continue
            if i == 0:
                ok = anywhere or p == 0
            else:
                ok = any((q < p) if anywhere else (q == p - 1) for q in prev)  # type: ignore[union-attr]
            if ok:
                cur.add(p)
        prev = cur
        if not cur:
            return False
    return m in prev  # type: ignore[operator]


def st_steps(class_names: list[str], field_names: list[str], max_steps: int = 4) -> Any:
    from hypothesis import strategies as st

    idx = st.one_of(st.none(), st.none(), st.just(""), st.integers(0, 13).map(str), st.sampled_from(["10", "11", "12", "1", "0", "007", "20"]))
    fld = st.one_of(st.none(), st.sampled_from(field_names))
    cls = st.one_of(st.none(), st.sampled_from(class_names))
    step = st.fixed_dictionaries({"field": fld, "index": idx, "cls": cls})
    last = st.fixed_dictionaries({"field": fld, "index": idx, "cls": st.sampled_from(class_names)})
    marker = st.just({"field": None, "index": None, "cls": None})
    body = st.lists(st.one_of(step, step, step, marker), max_size=max_steps - 1)
    return st.tuples(body, last).map(lambda t: [*t[0], t[1]])


def subsequence_path(chain: list[tuple], mro_of: Callable[[str], list[str]], pick: int, seps: int, detail: int) -> tuple[list[dict], bool]:
    """an xpath over a subsequence of the node's chain (always including the node itself) whose
    separators ('/' or '//') are drawn independently of whether the chosen elements are adjacent:
    near-miss positives and negatives for the adjacency / anywhere logic."""
    m = len(chain) - 1
    idxs = [i for i in range(m) if pick >> i & 1] + [m]
    steps: list[dict] = []
    relative = False
    for k, i in enumerate(idxs):
        f, ix, c = chain[i]
        anywhere = bool(seps >> k & 1)
        if k == 0 and anywhere and detail & 1:
            relative = True
        elif anywhere:
            steps.append({"field": None, "index": None, "cls": None})
        d = detail >> (1 + 3 * k) & 7
        mro = mro_of(c)
        step = {"field": f if d & 1 else None, "index": (str(ix) if ix is not None else "") if d & 2 else None,
                "cls": mro[0] if not d & 4 else mro[(d + k) % len(mro)]}
        steps.append(step)
    return steps, relative
