#!/venv/bin/python
"""Single entry point of the verification machinery.

    check.py <Cxx> --tier quick|thorough          run the property's search
    check.py <Cxx> --replay FILE                  re-run one saved case (no Hypothesis)

Exit 0: property held on everything explored (KNOWN-FINDING lines possible).
Exit 1: prints `VIOLATION property=<id> replay=<path>`.
Exit 2: harness error (never a violation).
"""
from __future__ import annotations

import argparse
import importlib
import json
import os
import shutil
import subprocess
import sys
import time

VERIF_DIR = os.path.dirname(os.path.abspath(__file__))
REPO_DIR = os.environ.get("VERIF_REPO", "/repo")
REPO_SRC = os.path.join(REPO_DIR, "src")
PY = "/venv/bin/python"


def _bootstrap() -> None:
    if os.environ.get("PYTHONHASHSEED") != "0" and not os.environ.get("VERIF_KEEP_HASHSEED"):
        env = dict(os.environ, PYTHONHASHSEED="0")
        os.execve(PY, [PY, os.path.abspath(__file__), *sys.argv[1:]], env)
    for p in (VERIF_DIR, REPO_SRC):
        if p in sys.path:
            sys.path.remove(p)
    sys.path.insert(0, VERIF_DIR)
    sys.path.insert(0, REPO_SRC)
    deps = os.path.join(VERIF_DIR, ".deps")
    if os.path.isdir(deps) and deps not in sys.path:
        sys.path.append(deps)
    sys.dont_write_bytecode = True


def _load(prop: str):
    import pyoak

    if not os.path.abspath(pyoak.__file__).startswith(os.path.abspath(REPO_SRC)):
        print(f"harness error: pyoak imported from {pyoak.__file__}, not {REPO_SRC}", file=sys.stderr)
        sys.exit(2)
    return importlib.import_module(f"pbt.props.{prop.lower()}")


def _known(prop: str) -> list[dict]:
    path = os.path.join(VERIF_DIR, "known_findings.json")
    if not os.path.exists(path):
        return []
    with open(path) as f:
        data = json.load(f)
    return [e for e in data.get("findings", []) if e.get("property") == prop]


def _shard_hashseed(seed: int, i: int) -> int:
    """even shards run with string hashing fixed at 0, odd shards under a seed derived from VERIF_SEED
    and the shard number: iteration orders of str sets / enum sets differ between shards, and every
    shard is still a pure function of (tree, VERIF_SEED)."""
    if i % 2 == 0:
        return 0
    return (seed * 7919 + i * 104729) % 4294967294 + 1


def _write_replay(prop: str, failure: dict) -> str:
    from pbt.runtime import case_hash

    d = os.path.join(VERIF_DIR, "replays", prop)
    os.makedirs(d, exist_ok=True)
    path = os.path.join(d, f"{case_hash(failure)}.json")
    with open(path, "w") as f:
        json.dump(failure, f, indent=1, sort_keys=True)
    return path


def main() -> int:
    _bootstrap()
    ap = argparse.ArgumentParser()
    ap.add_argument("prop")
    ap.add_argument("--tier", default=os.environ.get("VERIF_TIER", "quick"), choices=["quick", "thorough"])
    ap.add_argument("--replay")
    ap.add_argument("--shard")
    ap.add_argument("--out")
    ap.add_argument("--shards", type=int)
    args = ap.parse_args()
    prop = args.prop.upper()
    seed = int(os.environ.get("VERIF_SEED", "1") or "1")

    from pbt import runtime as rt

    try:
        module = _load(prop)

        if args.replay:
            with open(args.replay) as f:
                case = json.load(f)
            want = str(case.get("hashseed", 0))
            if os.environ.get("PYTHONHASHSEED") != want:
                env = dict(os.environ, PYTHONHASHSEED=want, VERIF_KEEP_HASHSEED="1")
                os.execve(PY, [PY, os.path.abspath(__file__), *sys.argv[1:]], env)
            held, msg = rt.replay_case(module, case)
            if held:
                print(f"replay {args.replay}: property held")
                return 0
            print(f"replay {args.replay}: {msg}")
            print(f"VIOLATION property={prop} replay={os.path.abspath(args.replay)}")
            return 1

        if args.shard:
            i, n = (int(x) for x in args.shard.split("/"))
            ctx = rt.Ctx(prop=prop, tier=args.tier, seed=seed, shard=i, nshards=n)
            res = rt.run_shard(module, ctx)
            with open(args.out, "w") as f:
                json.dump(res, f)
            return 0

        return _parent(module, prop, args.tier, seed, args.shards)
    except rt.HarnessError as e:
        print(f"harness error: {e}", file=sys.stderr)
        return 2


def _reproduces(prop: str, path: str) -> bool:
    """replay in a fresh interpreter; True iff it reports the violation again."""
    with open(path) as f:
        want = str(json.load(f).get("hashseed", 0))
    env = dict(os.environ, PYTHONHASHSEED=want, VERIF_KEEP_HASHSEED="1")
    r = subprocess.run([PY, os.path.abspath(__file__), prop, "--replay", path], env=env, cwd=VERIF_DIR,
                       capture_output=True, text=True)
    return r.returncode == 1


def _confirm_failure(prop: str, failure: dict, first_failure: dict | None, history: dict | None) -> str | None:
    """A replay must be a plain regression case. Try the shrunk case, then the case as first
    found, then growing suffixes of the shard's case sequence (for failures that depend on state
    the library kept from earlier cases)."""
    for cand in (failure, first_failure):
        if cand is None:
            continue
        path = _write_replay(prop, cand)
        if _reproduces(prop, path):
            print(f"failing case ({cand['part']}): {cand['clause']}: {cand['detail']}")
            return path
        os.unlink(path)
    if history and first_failure:
        cases = history["cases"]
        k = 2
        while True:
            seq = cases[-k:]
            cand = {"prop": prop, "part": history["part"], "sequence": seq, "warm": history.get("warm", "none"),
                    "clause": first_failure["clause"], "detail": first_failure["detail"],
                    "hashseed": first_failure.get("hashseed", 0)}
            path = _write_replay(prop, cand)
            if _reproduces(prop, path):
                print(f"failing case ({history['part']}, needs the preceding {len(seq) - 1} case(s) in the "
                      f"same process): {cand['clause']}: {cand['detail']}")
                return path
            os.unlink(path)
            if k >= len(cases):
                break
            k = min(len(cases), k * 4)
    if history and first_failure and history.get("all"):
        # everything the shard did before the failure, earlier parts included
        allc = history["all"]
        cand = {"prop": prop, "part": history["part"], "sequence": [d for _, d in allc],
                "sequence_parts": [p for p, _ in allc], "warm": history.get("warm", "none"),
                "clause": first_failure["clause"], "detail": first_failure["detail"],
                "hashseed": first_failure.get("hashseed", 0)}
        path = _write_replay(prop, cand)
        if _reproduces(prop, path):
            print(f"failing case ({history['part']}, needs the {len(allc) - 1} case(s) the process ran before it, "
                  f"earlier parts included): {cand['clause']}: {cand['detail']}")
            return path
        os.unlink(path)
    return None


def _parent(module, prop: str, tier: str, seed: int, shards: int | None) -> int:
    from pbt import runtime as rt

    t0 = time.monotonic()
    violations: list[str] = []
    known_lines: list[str] = []
    regression_cases = 0

    # 1. committed reproductions: open findings (reported, tolerated) and fixed ones (must pass)
    for e in _known(prop):
        path = os.path.join(VERIF_DIR, e["replay"])
        with open(path) as f:
            case = json.load(f)
        held, msg = rt.replay_case(module, case)
        regression_cases += 1
        if e["status"] == "open":
            if not held:
                known_lines.append(f"KNOWN-FINDING: property={prop} {e['what']} [{e['replay']}]")
        else:  # fixed: suppresses nothing
            if not held:
                print(f"regression {e['replay']}: {msg}")
                violations.append(path)

    # 2. the search, sharded over fresh interpreters
    n = shards or int(os.environ.get("VERIF_SHARDS", "0") or 0) or (16 if tier == "thorough" else 8)
    n = getattr(module, "SHARDS", {}).get(tier, n) if shards is None else n
    work = os.path.join(VERIF_DIR, ".work", f"{prop}-{os.getpid()}")
    os.makedirs(work, exist_ok=True)
    procs = []
    for i in range(n):
        hs = _shard_hashseed(seed, i)
        env = dict(os.environ, PYTHONHASHSEED=str(hs), VERIF_KEEP_HASHSEED="1", VERIF_SEED=str(seed))
        out = os.path.join(work, f"shard{i}.json")
        log = open(os.path.join(work, f"shard{i}.log"), "w")
        p = subprocess.Popen(
            [PY, os.path.abspath(__file__), prop, "--tier", tier, "--shard", f"{i}/{n}", "--out", out],
            env=env, stdout=log, stderr=subprocess.STDOUT, cwd=VERIF_DIR,
        )
        procs.append((p, out, log, hs))
    stats = rt.Stats()
    failure = None
    first_failure = None
    history = None
    harness_errors = []
    for p, out, log, hs in procs:
        rc = p.wait()
        log.close()
        if rc != 0 or not os.path.exists(out):
            with open(log.name) as f:
                harness_errors.append(f"shard rc={rc}: {f.read()[-3000:]}")
            continue
        with open(out) as f:
            res = json.load(f)
        stats.merge_json(res["stats"])
        if res["failure"] is not None and failure is None:
            failure = res["failure"]
            first_failure = res.get("first_failure")
            history = res.get("history")
            for d in (failure, first_failure):
                if d is not None:
                    d["hashseed"] = hs
    shutil.rmtree(work, ignore_errors=True)
    try:
        os.rmdir(os.path.join(VERIF_DIR, ".work"))
    except OSError:
        pass

    if harness_errors and failure is None:
        for h in harness_errors:
            print("harness error:", h, file=sys.stderr)
        return 2

    if failure is not None:
        path = _confirm_failure(prop, failure, first_failure, history)
        if path is None:
            print(f"harness error: failing case does not reproduce in a fresh process, neither shrunk, nor as "
                  f"first found, nor as the sequence of cases that led to it "
                  f"({failure['clause']}: {failure['detail']})", file=sys.stderr)
            return 2
        violations.append(path)

    n_to = sum(v for k, v in stats.labels.items() if k.endswith(":CASE-TIMEOUT"))
    if n_to:
        print(f"note: {n_to} case(s) exceeded the per-case time limit and were dropped as inconclusive", file=sys.stderr)
    wall = time.monotonic() - t0
    _write_evidence(module, prop, tier, seed, stats, wall, len(violations), n, regression_cases, known_lines)
    for line in known_lines:
        print(line)
    if violations:
        for v in violations:
            print(f"VIOLATION property={prop} replay={v}")
        return 1
    print(f"{prop} {tier}: held on {stats.evaluations} cases "
          f"({len(stats.nontrivial)} distinct non-trivial), {wall:.1f}s")
    return 0


def _write_evidence(module, prop, tier, seed, stats, wall, nviol, nshards, regression_cases, known_lines) -> None:
    floors = {}
    floors_met = True
    for label, frac in getattr(module, "FLOORS", {}).items():
        part = label.split(":")[0]
        total = stats.part_counts.get(part, 0)
        got = stats.labels.get(label, 0)
        ok = total == 0 or got >= frac * total
        floors[label] = {"required_fraction": frac, "observed": got, "of": total, "met": ok}
        floors_met = floors_met and ok
    if not floors_met:
        print(f"warning: generator floors missed for {prop}: "
              + ", ".join(k for k, v in floors.items() if not v["met"]), file=sys.stderr)
    samples = [{"class": k, "case": v} for k, v in sorted(stats.samples.items())]
    ev = {
        "property_id": prop,
        "tier": tier,
        "seed": seed,
        "level": "exploration",
        "coverage": {
            "evaluations": stats.evaluations,
            "distinct_nontrivial": len(stats.nontrivial),
            "rule": module.RULE,
            "samples": samples,
            "exhaustive": bool(stats.exhaustive_parts) and all(
                p.enumerate is not None for p in module.PARTS),
            "exhaustive_parts": stats.exhaustive_parts,
            "part_counts": dict(stats.part_counts),
            "histogram": dict(sorted(stats.labels.items())),
            "floors": floors,
            "floors_met": floors_met,
            "excluded_by_known_finding": dict(stats.excluded),
            "case_timeouts_inconclusive": sum(v for k, v in stats.labels.items() if k.endswith(":CASE-TIMEOUT")),
            "shards": nshards,
            "shard_string_hash_seeds": [_shard_hashseed(seed, i) for i in range(nshards)],
            "regression_cases_replayed": regression_cases,
            "known_findings_reported": known_lines,
        },
        "assumptions": list(getattr(module, "ASSUMPTIONS", [])),
        "wall_s": round(wall, 2),
        "violations": nviol,
    }
    d = os.environ.get("VERIF_EVIDENCE_DIR") or os.path.join(VERIF_DIR, "evidence")
    os.makedirs(d, exist_ok=True)
    with open(os.path.join(d, f"{prop}.json"), "w") as f:
        json.dump(ev, f, indent=1, sort_keys=True)
        f.write("\n")
    if os.environ.get("VERIF_STRICT_FLOORS") == "1" and not floors_met:
        sys.exit(2)


if __name__ == "__main__":
    try:
        _rc = main()
    except SystemExit:
        raise
    except BaseException:  # noqa: BLE001 - a crash of the harness itself is exit 2, never exit 1
        import traceback

        traceback.print_exc()
        print("harness error: check.py crashed", file=sys.stderr)
        sys.exit(2)
    sys.exit(_rc)
