#!/bin/bash
# re-confirms every stored seed against the current /repo tree and re-runs the checks that should catch it
cd "$(dirname "$0")/.."
for d in seeded/*/; do
  id=$(basename "$d")
  props=$(python3 -c "import json;m=json.load(open('$d/meta.json'));print(' '.join([m['breaks_property']]+[p for p in m['detected_by'] if p!=m['breaks_property']]))")
  echo "=== $id ($props)"
  tools/seed.py "$d" "$id" $props 2>&1 | grep -E "check|NOT CONFIRMED|PATCH|stored" | cut -c1-200
done
