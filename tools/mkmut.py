#!/usr/bin/env python3
"""tools/mkmut.py <name> <file-relative-to-repo> <<< python dict literal list of (old, new) replacements on stdin
Creates mutants/<name>.diff against the current /repo working tree (nothing in /repo is touched)."""
import ast, difflib, os, sys
name, rel = sys.argv[1], sys.argv[2]
pairs = ast.literal_eval(sys.stdin.read())
src = open(os.path.join("/repo", rel)).read()
new = src
for old, rep in pairs:
    if new.count(old) != 1:
        sys.exit(f"{name}: pattern occurs {new.count(old)} times: {old!r}")
    new = new.replace(old, rep)
diff = "".join(difflib.unified_diff(src.splitlines(True), new.splitlines(True), f"a/{rel}", f"b/{rel}"))
out = os.path.join(os.path.dirname(os.path.dirname(os.path.abspath(__file__))), "mutants", f"{name}.diff")
os.makedirs(os.path.dirname(out), exist_ok=True)
open(out, "w").write(diff)
print("wrote", out)
