#!/bin/bash
# sensitivity sweep: every mutant of mutants/MAP.tsv against the checks that must report it (exit 1)
cd "$(dirname "$0")/.."
ok=0; bad=0
while IFS=$'\t' read -r m props; do
  [[ -z "$m" ]] && continue
  for p in $props; do
    out=$(tools/mut.sh "mutants/$m.diff" "$p" 2>&1)
    if echo "$out" | grep -q "rc=1 "; then ok=$((ok+1)); else bad=$((bad+1)); echo "MISSED/ERROR: $m $p :: $(echo "$out" | head -3 | tr '\n' ' ' | cut -c1-300)"; fi
  done
done < mutants/MAP.tsv
echo "detected=$ok not-detected=$bad"
