#!/bin/bash
# Sensitivity helper (not a registered check).
#   tools/mut.sh <patch> [--tests] [--tier quick|thorough] <Cxx> [<Cyy> ...]
# Copies /repo to a scratch directory outside /repo and /verif, applies the patch there,
# optionally runs the pinned test-suite against the copy, runs the named checks against the
# copy (VERIF_REPO), prints their exit codes and removes the copy.
set -u
patch=$(readlink -f "$1"); shift
tests=0; tier=quick
while [[ "${1:-}" == --* ]]; do
  case "$1" in
    --tests) tests=1; shift;;
    --tier) tier=$2; shift 2;;
    *) echo "bad flag $1"; exit 2;;
  esac
done
scratch=$(mktemp -d /tmp/pyoak-mut.XXXXXX)
trap 'rm -rf "$scratch"' EXIT
mkdir -p "$scratch/repo"
(cd /repo && git ls-files -z | xargs -0 cp --parents -t "$scratch/repo") 
# include uncommitted working-tree state of tracked files (cp above already copies working tree)
if ! (cd "$scratch/repo" && patch -p1 --quiet < "$patch"); then echo "PATCH FAILED"; exit 2; fi
if [[ $tests == 1 ]]; then
  (cd "$scratch/repo" && PYTHONPATH="$scratch/repo/src" /venv/bin/python -m pytest -q -p no:cacheprovider -x --timeout=900 2>&1 | tail -3)
fi
cd /verif
for c in "$@"; do
  start=$(date +%s)
  out=$(VERIF_REPO="$scratch/repo" VERIF_EVIDENCE_DIR="$scratch/ev" ./check.py "$c" --tier "$tier" 2>&1); rc=$?
  end=$(date +%s)
  echo "== $(basename "$patch") $c rc=$rc ($((end-start))s)"
  echo "$out" | grep -E "VIOLATION|failing case|harness|KNOWN" | head -5 | cut -c1-400
done
