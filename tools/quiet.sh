#!/bin/bash
# quietness on the unchanged tree: every quick check at several seeds, fresh processes; prints only problems
cd "$(dirname "$0")/.."
seeds="${*:-2 3 4 5}"
bad=0
for s in $seeds; do
  for c in C01 C02 C03 C04 C05 C06 C07 C08 C09 C10 C11 C12 C13 C14 C15 C16 C17 C18 C19 C20; do
    out=$(VERIF_SEED=$s VERIF_EVIDENCE_DIR=/tmp/ev-quiet ./check.py $c --tier quick 2>&1); rc=$?
    if [[ $rc != 0 ]] || echo "$out" | grep -q "floors missed"; then echo "seed $s $c rc=$rc: $(echo "$out" | tail -3 | cut -c1-300)"; fi
    [[ $rc != 0 ]] && bad=1
  done
  echo "seed $s done"
done
exit $bad
