#!/usr/bin/env python3
"""Regenerates /verif/MANIFEST.json from the table below (keeps the manifest valid and uniform)."""
import json
import os

HERE = os.path.dirname(os.path.dirname(os.path.abspath(__file__)))

TITLES = {}
with open(os.path.join(HERE, "properties.jsonl")) as f:
    for line in f:
        p = json.loads(line)
        TITLES[p["id"]] = p["title"]

# property -> (technique, level text, level note, design ref)
CHECKS = {
    "C15": (
        "exhaustive grid enumeration + Hypothesis origin tuples vs interval / flat-list reference model",
        "Exhaustive enumeration of all pairs and triples of code ranges on a small index grid and of "
        "ill-formed constructions, plus seeded Hypothesis search over tuples of origins of every kind "
        "and over texts x ranges (in-memory sources, and text / plain / zipped file sources incl. Latin-1, cp1252 "
        "and UTF-8 files whose first non-ASCII character comes late), each compared with an independent interval / "
        "flat-list model (both directions of every law). Bounded exploration: no universal claim beyond the grid.",
        "Trusts Hypothesis as generator, the reference model in pbt/props/c15.py, Python's str slicing; "
        "positions are well-formed (line/column derived from index).",
        "DESIGN.md section 3 / C15",
    ),
}

CHECKS["C05"] = (
    "Hypothesis tree specs x enumerated/drawn prune-filter predicate subsets vs recursive reference traversal",
    "Seeded Hypothesis search over trees of the v2 universe (all child-field shapes, shared objects, falsy "
    "children, tuples wider than 10); for small trees every (prune, filter) pair of position subsets is "
    "enumerated, for larger ones a fixed+drawn sample; dfs / bottom-up dfs / bfs / gather / children are "
    "compared as sequences (order, multiplicity, node/parent/field/index identity) with an independent "
    "recursive reference. Bounded exploration.",
    "Trusts Hypothesis, the reference traversal over the spec graph, dataclasses.fields order; the node "
    "universe of pbt/models_v2.py samples 'any node model'.",
    "DESIGN.md section 3 / C05",
)

CHECKS["C01"] = (
    "Hypothesis tree pairs (spec + named mutation) vs reference content key; pool partition over all nodes; cross-process workers",
    "Seeded Hypothesis search over pairs of trees (a spec and one of 15 targeted mutations of it, strings built "
    "from the digest's own framing tokens) built in one registry; content_id equality and is_equal are compared "
    "in both directions with an independent structural key, for the roots and (through two maps that must stay "
    "functions, kept over the whole shard) for all pairs of nodes ever built; the same specs are rebuilt in two "
    "worker processes with different PYTHONHASHSEEDs and a permuted field declaration order; trees written at one "
    "digest width (1..64), dropped, optionally edited in the payload and read back at another width must carry "
    "the content ids of the same content built by hand. Bounded exploration.",
    "Trusts Hypothesis, the reference key (pbt/trees.py), blake2b not colliding by chance at >= 8 bytes; floats "
    "are outside C01's quantifier and not generated.",
    "DESIGN.md section 3 / C01",
)

CHECKS["C02"] = (
    "Hypothesis triples of trees with targeted origin variants per position vs position-wise reference equality",
    "Seeded Hypothesis search over triples (a, b, c) built from one tree spec with origin variants at uniformly "
    "chosen positions (incl. kind-only differences), optional content mutations, equal-but-distinct source "
    "objects and a detached first tree; ==, != are compared with a reference (class, structural key, origin "
    "spec at every position) in both directions, plus reflexivity, symmetry, transitivity on the real results, "
    "foreign comparands and hash constancy. Bounded exploration.",
    "Trusts Hypothesis, the reference key and canonical origin specs; a == b => equal hashes is not asserted.",
    "DESIGN.md section 3 / C02",
)

CHECKS["C06"] = (
    "Hypothesis trees with twins; every node / ordered pair / foreign twin queried against a parent map from the spec; xpath walked",
    "Seeded Hypothesis search over trees without repeated objects but with content- and origin-identical twins; "
    "one Tree per case is queried for every node and every ordered pair (relative and absolute queries "
    "interleaved in drawn orders), for drawn class arguments and for foreign twins, and compared with the parent "
    "map derived from the spec; get_xpath is parsed, walked with getattr and checked for injectivity. Bounded.",
    "Trusts Hypothesis and the spec-derived parent map; foreign twins are built while members are registered.",
    "DESIGN.md section 3 / C06",
)

CHECKS["C03"] = (
    "model-based stateful search: generated operation programs over a handle pool vs an id->weakref registry model with invariants after every step",
    "Seeded Hypothesis search over operation programs (construct, twin, duplicate, dataclasses.replace, "
    "ASTNode.replace ok/failing, detach, detach_self, round trips, drop + gc) with ID_DIGEST_SIZE in {1,2,8}; a "
    "model of what should be registered is updated from the statement and compared after every step with every "
    "lookup variant, with the liveness (weakref) of every node ever created, id uniqueness, id determinism and, "
    "for failing replaces, the whole lookup table. Histories are data (op lists), shrunk and replayed as such.",
    "Trusts Hypothesis, CPython refcounting/gc determinism, the registry model of pbt/props/c03.py.",
    "DESIGN.md section 3 / C03",
)

CHECKS["C14"] = (
    "Hypothesis trees + short scenarios (twins, detach) around duplicate/replace vs position-wise and metamorphic (rebuild) oracles",
    "Seeded Hypothesis search over trees and scenarios (0-2 registered twins, subject detached before or after, "
    "single- and two-field changes of every kind); duplicate is checked position by position for equality, "
    "newness, registration and id freshness; both replace flavours for field identity; ASTNode.replace "
    "metamorphically against a fresh construction from the same field objects, and for keeping the original's "
    "id; no other registered node may be evicted. Bounded exploration.",
    "Trusts Hypothesis and the case's own bookkeeping of which nodes are registered.",
    "DESIGN.md section 3 / C14",
)

CHECKS["C09"] = (
    "Hypothesis trees x synthesised visitor rule sets vs MRO dispatch reference and bottom-up rewrite reference with object-identity marks",
    "Seeded Hypothesis search over trees and two rule sets per case (concrete and base-class-only rules, strict "
    "and non-strict, keep/clone/rewrite/replace/remove/raise); a plain visitor and a transformer are synthesised, "
    "their dispatch logs are compared with an MRO reference, the transformed tree with a reference rewrite "
    "including which result objects must be the very input objects and which must be new, and the input tree's "
    "frame snapshot must be unchanged (also when a rule raises, with a plain or an AttributeError-flavoured "
    "exception); a second part visits three node classes that share one name over different bases in every "
    "drawn order with every subset of five rule methods. Bounded exploration.",
    "Trusts Hypothesis and the reference rewrite; removal rules degrade to keep at non-removable positions.",
    "DESIGN.md section 3 / C09",
)

CHECKS["C10"] = (
    "model-based stateful search: generated programs over every public operation family with a frame-condition snapshot after every step",
    "Seeded Hypothesis search over operation programs covering every public operation family (traversal, Tree "
    "queries, xpath, patterns, visitors/transformers incl. raising rules, duplicate, replace ok/failing, "
    "dataclasses.replace, detach, all serialization formats and options incl. re-creation with forced ids, "
    "comparison/hash, accessors, rich rendering, setattr/delattr); after every step the snapshot (identity of "
    "children/origin, typed property values, id, content_id, hash) of every pre-existing node and its registry "
    "membership (allowed to change only for detach/replace receivers) are compared; plus a systematic part that "
    "reads a serialized tree back under every drawn subset of still-registered nodes, and one that reads a "
    "payload into a registry whose one-byte ids are held by unrelated nodes. Bounded exploration.",
    "Trusts Hypothesis and the snapshot of pbt/frame.py (dataclass fields, id, content_id, hash).",
    "DESIGN.md section 3 / C10",
)

CHECKS["C04"] = (
    "Hypothesis trees x format x option x alive-set (incl. fresh worker process) round trips vs a position-wise snapshot oracle",
    "Seeded Hypothesis search over trees with every representable value kind and origin kind, shared subtrees and "
    "suffixed ids, crossed with the four formats, the documented options (incl. index-based sources with the load "
    "protocol) and drawn alive sets (all, none, subsets, detached-but-held, outside twins dropped so ids must be "
    "forced, and a fresh worker interpreter); the result is compared position by position with a snapshot taken "
    "before serialization (identity for registered originals, equal class/id/content_id/typed values/origin "
    "spec and registration for re-created nodes, sharing, singletons, ==). Bounded exploration.",
    "Trusts Hypothesis, the snapshot/dump of pbt/props/c04.py (own reflection over dataclass fields); values are "
    "type-exact for their annotations; -0.0, NaN, inf and frozensets are outside the quantifier.",
    "DESIGN.md section 3 / C04",
)

CHECKS["C16"] = (
    "generated call programs x option subsets x injected faults (armed bomb property, corrupted payloads) vs probe isolation oracle and a reference serializer",
    "Seeded Hypothesis search over programs of (de)serialization calls with every option subset, in which any "
    "call may fail at a drawn nested object (a property whose (de)serialization raises while armed, a payload "
    "corrupted at a drawn path); after every call a default serialization of a probe tree (key order included) "
    "and a default deserialization of a reference payload must equal the references taken at the start, and "
    "the output of every successful serialization is compared mapping by mapping, key order included, with an "
    "independent reference serializer for the given options. Fault-injection style exploration, bounded.",
    "Trusts Hypothesis and the reference serializer of pbt/props/c16.py; AST_TEST output itself is not modelled; "
    "yaml.dump orders keys itself, so order is compared for dict/json/msgpack only.",
    "DESIGN.md section 3 / C16",
)

CHECKS["C07"] = (
    "Hypothesis trees x grammar-generated and node-derived xpaths; findall vs match (differential) and both vs a set-based reference semantics",
    "Seeded Hypothesis search over trees (tuples wider than 10, subclass hierarchies, a field named 'child') and "
    "four xpaths per tree - raw from the grammar and derived from a real node's chain, then generalised and "
    "perturbed; findall (no duplicates), match on every node, find and the node front-ends are compared with "
    "each other and with an independent reference semantics over the node's root chain. Bounded exploration.",
    "Trusts Hypothesis and pbt/xpath_ref.py; the grammar in the source is taken as the documented one.",
    "DESIGN.md section 3 / C07",
)

CHECKS["C08"] = (
    "Hypothesis (pattern, node) pairs - grammar-generated and node-abstracted patterns - vs a reference pattern interpreter; cached / recompiled / interleaved differential; MultiPatternMatcher order oracle",
    "Seeded Hypothesis search over patterns from the grammar and patterns abstracted from a real node and then "
    "perturbed (sequence length, tail, regex position, class alternatives, variables), matched against several "
    "nodes; verdicts and capture dictionaries (object identity) are compared with an independent interpreter of "
    "the documented semantics, cached vs freshly compiled vs interleaved compilations must agree (caches are "
    "deliberately never cleared between cases), and MultiPatternMatcher must return the first matching rule of "
    "the given order. Bounded exploration.",
    "Trusts Hypothesis, pbt/pattern_ref.py and Python's re; sequence patterns against str values are not generated.",
    "DESIGN.md section 3 / C08",
)

CHECKS["C17"] = (
    "Hypothesis texts (grammar-derived, token-mutated, semantically ill-formed, random) + coverage-guided atheris campaign (thorough) with a totality / agreement / recompilation oracle",
    "Seeded Hypothesis search over well-formed texts rendered from grammar ASTs, single-token mutations of them, "
    "semantically ill-formed texts and random strings, for both the xpath and the pattern language; only the "
    "definition errors may escape, the three pattern entry points must agree, well-formed texts must be accepted, "
    "the listed ill-formed kinds rejected, and blanks between tokens, cache hits, cleared caches and later "
    "compilations must leave the behaviour on a fixed pool of trees unchanged. The thorough tier adds 16 "
    "coverage-guided atheris campaigns (empty and seeded corpora) with the same oracle inside the target.",
    "Trusts Hypothesis / libFuzzer, the token renderers of pbt/pattern_ref.py and pbt/xpath_ref.py; behavioural "
    "equality is judged on a fixed pool of trees.",
    "DESIGN.md section 3 / C17",
)

CHECKS["C11"] = (
    "Hypothesis class-definition programs (annotation grammar to depth 3, inheritance chains, plain and postponed emission) exec-ed and compared with a reference classification",
    "Seeded Hypothesis search over generated class definitions: chains of 1-3 node classes with annotations "
    "from the whole type grammar (incl. NewType, both union spellings, forward references, containers, "
    "inherited and overridden fields), each emitted as module source twice (plain annotations and postponed) "
    "and exec-ed; the observed verdict per field (InvalidFieldAnnotations at definition or first use with the "
    "exact field set, or membership in exactly one of the child / property tables, instantiation working) is "
    "compared with an independent reference classification, and both emissions must agree. Bounded exploration.",
    "Trusts Hypothesis and the reference classification in pbt/classfactory.py; annotations that Python or "
    "mashumaro refuse outright are discarded (counted); a union nested through a NewType may be child or rejected.",
    "DESIGN.md section 3 / C11",
)

CHECKS["C12"] = (
    "Hypothesis class hierarchies exec-ed afresh for every first-use order; exhaustive flag enumeration per class and instance vs a spec-derived field table",
    "Seeded Hypothesis search over generated class hierarchies (overrides, init=False, compare=False, both, "
    "kw_only, every child / property shape, falsy child nodes); each hierarchy is exec-ed afresh for every "
    "permutation of first use among its classes, and for every class and three instances ALL 2^5 x 2 flag / "
    "sort_keys combinations of get_properties, all 2^5 of the static get_property_fields and both orders of the "
    "child accessors are enumerated and compared (values and Field objects by identity) with a field table "
    "derived from the spec. Exhaustive over flags per case, bounded over hierarchies.",
    "Trusts Hypothesis, dataclasses.fields (cross-checked) and the spec-derived table in pbt/props/c12.py.",
    "DESIGN.md section 3 / C12",
)

CHECKS["C13"] = (
    "Hypothesis (annotation, value) constructions - pool values and annotation-derived conforming / corrupted values - vs a reference conformance function, switch on and off",
    "Seeded Hypothesis search over generated classes with 1-5 annotated fields (C11's accepted grammar to depth "
    "3, init=False fields with right / wrong defaults) and values from a pool or derived from the annotation "
    "with one targeted corruption; is_instance on every (value, resolved annotation) pair and the construction "
    "under RUNTIME_TYPE_CHECK (success iff all fields conform, InvalidTypes.invalid_fields exactly the "
    "non-conforming ones) are compared with an independent conformance function; with the switch off nothing "
    "is validated and conforming input yields the same node; nodes constructed by the deserializer from payloads "
    "with a foreign node class in child entries are validated the same way. Bounded exploration.",
    "Trusts Hypothesis and the reference conformance in pbt/props/c13.py; bool vs float and bool/int/float "
    "crossings inside Literal are left open by the statement and not asserted.",
    "DESIGN.md section 3 / C13",
)

CHECKS["C20"] = (
    "Hypothesis legacy trees x enumerated/drawn predicate subsets x skip_self/bottom_up vs the C05 reference; legacy xpath vs the C07 reference along parent chains",
    "Seeded Hypothesis search over attached legacy trees (tuple and list child fields, tuples wider than 10); "
    "dfs / bfs / gather with all (small trees) or drawn (prune, filter) predicate subsets x skip_self x "
    "bottom_up are compared as sequences with the shared reference traversal; grammar-generated and "
    "node-derived xpaths are matched on every node against the shared reference semantics evaluated along the "
    "parent chain; malformed texts must raise only the definition error; calculate_xpath must spell every "
    "node's chain on roots and change nothing on non-roots. Bounded exploration.",
    "Trusts Hypothesis and the shared references (pbt/props/c20.py ref_order, pbt/xpath_ref.py).",
    "DESIGN.md section 3 / C20",
)

CHECKS["C18"] = (
    "model-based stateful search: generated legacy operation programs with run-time eligible-operand selection; per-op post-conditions + structural invariants after every step",
    "Seeded Hypothesis search over programs of the public legacy operations (construction over existing children, "
    "attach, detach, detach_self, replace of properties / children / sequences, replace_with node or None, "
    "duplicate, transform visitors and transformers) on attached, detached and stale receivers; operands are "
    "resolved at run time among eligible ones so that every operation should succeed. After every step the "
    "docstring post-conditions of the operation and structural invariants over all held nodes are evaluated "
    "(parent / field / index links both ways, lookup, unique ids, content_id against an independently rebuilt "
    "copy, ancestors / depth / is_ancestor / calculated xpath against the downward structure). Bounded.",
    "Trusts Hypothesis and the engine's own reflection (pbt/legacy_engine.py); a documented rejection ends a "
    "program as inconclusive (C19's subject).",
    "DESIGN.md section 3 / C18",
)
CHECKS["C19"] = (
    "fault-style stateful search: a successful program prefix followed by operations constructed to be rejected at a drawn point; full before/after snapshot comparison",
    "Seeded Hypothesis search: a C18 program prefix, then 1-3 operations built to be rejected (duplicate "
    "children, parent collisions at a drawn child position or inside a stale grandchild, id collisions, "
    "forbidden replace keys, replace_with parent / type / optionality / attach failures, stale receivers, "
    "raising or ill-typed transform rules); the call must raise a documented error and the snapshot of every "
    "held node (attached?, parent identity and position, every field by identity / value, id, original_id, "
    "content_id) and the lookup table must be unchanged. Fault-enumeration style exploration, bounded.",
    "Trusts Hypothesis and the snapshot of pbt/legacy_engine.py; a call that succeeds is not a C19 case.",
    "DESIGN.md section 3 / C19",
)

NOT_YET = "check not built yet in this snapshot (see DESIGN.md section 9 build order); nothing is claimed"


def main() -> None:
    checks = []
    for pid in sorted(CHECKS):
        tech, text, note, ref = CHECKS[pid]
        checks.append(
            {
                "property_id": pid,
                "quick_cmd": f"./check.py {pid} --tier quick",
                "thorough_cmd": f"./check.py {pid} --tier thorough",
                "evidence_file": f"/verif/evidence/{pid}.json",
                "replay_cmd_template": f"./check.py {pid} --replay {{path}}",
                "engine": "pbt",
                "level_claimed": {"category": "exploration", "text": text, "design_ref": ref},
                "level_note": note,
                "technique": tech,
            }
        )
    manifest = {
        "version": 1,
        "setup_cmd": "./setup.sh",
        "hooks": {
            "guard": "MISHAMSK_PYOAK_VERIF",
            "enable": "no hooks are needed: the checks import /repo/src directly (working tree) and "
            "observe public API and module-level state only",
            "baseline_off_cmd": "cd /repo && /venv/bin/python -m pytest -ra -q -p no:cacheprovider --timeout=900",
            "source_commits": [],
            "add_only": True,
        },
        "engines": [
            {
                "name": "pbt",
                "path": "check.py",
                "serves_properties": sorted(CHECKS),
                "kind_free_text": "Hypothesis-driven generated-input search (specs as JSON, sharded over "
                "fresh interpreters) against reference models; exhaustive enumeration for small finite "
                "domains; replay of saved cases without Hypothesis",
            }
        ],
        "checks": checks,
        "not_applicable": [
            {"property_id": pid, "reason": NOT_YET} for pid in sorted(TITLES) if pid not in CHECKS
        ],
        "notes": "All checks: `./check.py <id> --tier quick|thorough`, seed from VERIF_SEED. "
        "Exit 0 held / 1 VIOLATION line / 2 harness error (never a VIOLATION; a case that runs into the per-case "
        "alarm is dropped as inconclusive and counted in the evidence). Shards run under string-hash seeds derived "
        "from VERIF_SEED; a replay file records the seed it was found under and `--replay` re-executes under it. "
        "Known findings: known_findings.json (36 entries, all `fixed`, by 32 `fix:` commits in /repo; each with a replay under "
        "known/ and a revert mutant under mutants/reverts/). Sensitivity material (not registered checks): "
        "mutants/ (97 hand-written and revert mutants, tools/sens.sh) and seeded/ (519 changes written by "
        "sub-agents that saw only the property text, tools/seed_sweep.py); DESIGN.md section 10.4 says which "
        "check reports which.",
    }
    with open(os.path.join(HERE, "MANIFEST.json"), "w") as f:
        json.dump(manifest, f, indent=1)
        f.write("\n")


if __name__ == "__main__":
    main()
