#!/usr/bin/env python3
"""prints the prompt handed to a mutant-writing sub-agent for one property (property text only)."""
import json, sys
pid = sys.argv[1]
rnd = sys.argv[2] if len(sys.argv) > 2 else ""
for line in open('/verif/properties.jsonl'):
    p = json.loads(line)
    if p['id'] == pid:
        break
wt = f"/tmp/wt-{pid}{rnd}"
out = f"/tmp/seed-{pid}{rnd}"
extra = ""
if rnd == "c":
    extra = """
Additional guidance for this round: two earlier rounds already produced (1) direct changes at the obvious code sites for this property and (2) changes in shared helpers / caches / first-use order / multiple inheritance / slotted and abstract classes / class-name lookup caches / source-registry handling. Do NOT repeat those. Look for something of a different kind, for example: a change that only alters a rarely inspected part of a result (a returned flag, the type of a container, object identity where equality still holds, ordering among equal elements, which exception type is raised); an off-by-one or boundary effect that needs a particular size (exactly 0, 1, 2, 10, 11 elements; very long or empty strings; depth > 5); an interaction with a configuration switch (ID_DIGEST_SIZE, RUNTIME_TYPE_CHECK, TRACE_LOGGING) or with Python-level features of the node model (fields with default_factory, keyword-only vs positional fields, properties whose values are unusual but legal such as negative numbers, empty tuples, nested tuples, enums); an effect that needs the same operation to be applied twice, or two different operations in a particular order; effects on nodes that are detached, shared between two parents, or content-identical twins. Each change must still be a plausible refactoring / optimisation / cleanup and must keep all 244 tests passing.
"""
elif rnd == "f":
    extra = """
Additional guidance for this round: five earlier rounds produced structural changes (helpers, caches, first-use order, inheritance shapes, configuration switches, unusual values and class features, deep trees, copies, user dunders, error paths, optional parameters, user subclasses of library classes, A-then-B interactions, registry / module state). Do NOT repeat those. This round is about SMALL, LOCAL slips - the kind a careful reviewer still misses - in code whose tests exercise only one side of a condition: a comparison operator off by one (`<` / `<=`, `>` / `>=`, `==` / `is`), `and` / `or` or `any` / `all` swapped in a compound condition where the existing tests make both operands agree, a truthiness test where `is None` / `is not None` is needed (think of index 0, empty string, empty tuple, 0.0, False as legitimate values: `x or default`, `if index:`), a `break` / `return` / `continue` that leaves a loop one element early or only when an earlier element had some property, swapped or mis-ordered arguments of the same type, a default argument value changed, a sort key or tie-break changed, a separator / format string in a digest, key, fqn or xpath changed so that two particular values collide or one particular value is mis-parsed, an off-by-one in slicing (`[1:]`, `[:-1]`, `[::-1]`), `min` / `max` or start / end confused, a dict / set used where order or multiplicity matters, `zip` truncating silently (strict= dropped) on unequal lengths, an exception type narrowed or widened in an `except`, an `else` branch of a `for` / `try` misplaced. For each change, first find a condition or expression in the relevant code for which the existing tests only ever see one outcome, then change it so that only the unseen outcome differs. Each change must keep all 244 tests passing.
"""
elif rnd == "e":
    extra = """
Additional guidance for this round: four earlier rounds already produced (1) direct changes at the obvious code sites, (2) shared helpers / caches / first-use order / multiple inheritance / slotted and abstract classes, (3) boundary sizes, configuration switches, one-shot iterators, repeated calls, detached / shared / twin nodes, (4) uncommon spellings, unusual legal values (bytes, nested frozensets, str-mixin enums, -0.0), trees deeper than the recursion limit, deep copies, user-defined __eq__/__hash__/__len__, Any-typed properties holding nodes, subclasses in other modules, re-declared built-in fields, odd field names, error paths inside user callbacks, re-used visitor objects. Do NOT repeat those. Look for something of yet another kind, for example: a rarely used OPTIONAL PARAMETER of an API named in the statement (strict=, default=, exact_type=, skip_self=, sort_keys=, check_ancestor=, relative_to=, indent=, as_detached_clone=, ensure_unique_id=, create_detached=, mashumaro_dialect=, and the like) whose non-default value takes a slightly different code path; user SUBCLASSES of library classes other than nodes (a subclass of Origin / Source / Position / CodeOrigin, of Tree, of a visitor with its own __init__, of NodeMatcher) or node models using dataclass features (InitVar, ClassVar, default_factory, kw_only=True on the decorator, positional required fields after inherited defaults, field(hash=False), field(repr=False), field(metadata=...)); interactions between TWO different public operations where only the second one misbehaves (A then B, e.g. serialize then match, duplicate then transform, Tree then replace, xpath then pattern on the same text/objects); module-level state that is initialised lazily or at import (type registry TYPES, Source registry, caches) after another module registered classes with the same simple name; results that are right as a set but wrong in multiplicity or order; generators that are consumed partially and resumed after another call; equality between objects of different but related classes (subclass vs base, GeneratedCodeOrigin vs CodeOrigin, list vs tuple). Each change must still be a plausible refactoring / optimisation / cleanup and must keep all 244 tests passing.
"""
elif rnd == "d":
    extra = """
Additional guidance for this round: three earlier rounds already produced (1) direct changes at the obvious code sites, (2) changes in shared helpers / caches / first-use order / multiple inheritance / slotted and abstract classes, (3) boundary sizes, configuration switches (TRACE_LOGGING, ID_DIGEST_SIZE, RUNTIME_TYPE_CHECK), one-shot iterators, repeated calls, detached/shared/twin nodes, str-mixin enums, nested frozensets, caller-owned option dicts. Do NOT repeat those. Look for something of yet another kind, for example: a less commonly used public entry point or spelling of the same operation that the statement covers (class-level vs instance-level call, positional vs keyword arguments, an alias, a convenience wrapper, `strict=`/`exact_type=`/`skip_self=`-style flags, passing a compiled object vs its text); a value or node-model feature that is legal but rarely combined (a field named like a library keyword or internal name, a class whose name is a prefix of / equal to another class in a different module, very deep but narrow trees, a tuple field holding the same child class at indices >= 100, negative / huge ints, floats like -0.0 / 1e300 / inf, bytes, strings with newlines or non-BMP characters, empty class bodies, a property typed `Any`/`object`); an interaction with Python runtime behaviour (garbage collection timing of weakly referenced nodes, `copy.copy`/`copy.deepcopy`/`pickle` of nodes, `dataclasses.replace`, subclass overriding `__post_init__`/`__eq__`/`__hash__`/`__repr__`, generic visitor subclasses overriding a hook); an error path (what is left behind after an exception inside user callbacks, filters, rules, visitors); asymmetry (a op b vs b op a, first vs last element, root vs non-root, the left-most vs right-most sibling). Each change must still be a plausible refactoring / optimisation / cleanup and must keep all 244 tests passing.
"""
elif rnd:
    extra = """
Additional guidance for this round: earlier rounds already produced the most direct changes at the most obvious code sites for this property. Look for something different: changes in shared / helper code (code generation, typing helpers, the serialization mixin, origin / source classes, caches, module-level state, configuration handling) whose effect on this property is indirect; interactions between two features (e.g. inheritance x caching, options x error paths, shared objects x registry); order- or history-dependent effects (something that only goes wrong the second time, or after another class / pattern / tree was used first); boundary sizes and unusual but legal values. Each change must still be a plausible refactoring / optimisation / cleanup.
"""
print(f"""You are helping to evaluate a test-suite for the open-source Python library pyoak (mishamsk/pyoak: ASTs as frozen dataclasses, node registry, content hashing, traversal, xpath search, pattern-matching DSL, serialization, plus a `pyoak.legacy` package).

You have your own scratch git worktree of the library at {wt} (source in {wt}/src/pyoak, tests in {wt}/tests). Work ONLY inside {wt} and {out}. Do not read or touch /repo, /verif or any other directory; do not use the network.

Here is a semantic property the library is supposed to satisfy:

  TITLE: {p['title']}
  STATEMENT: {p['statement']}
  QUANTIFIED OVER: {p['quantifier']['text']}

{extra}
Your task: produce TWO different, realistic code changes (bugs) to the library source under {wt}/src/pyoak, each of which
  (a) BREAKS the property above (observable through the public API),
  (b) still imports fine and still PASSES the complete existing test suite, which you run with
        cd {wt} && PYTHONPATH={wt}/src /venv/bin/python -m pytest -q -p no:cacheprovider
      (244 tests must pass, 0 failures),
  (c) is subtle: it must need something specific to manifest -- a multi-step sequence of operations, an unusual input (particular shape, size, value, class mix), a particular configuration, or two cooperating code sites that each look fine alone -- NOT something ordinary use would expose at once. Think of the kind of regression a plausible refactoring, optimisation or "cleanup" would introduce. The two changes must have different mechanisms / code sites.
  (d) comes with a small demonstration program that exits non-zero (assertion failure) WITH the change applied and exits 0 WITHOUT it (i.e. on the pristine worktree, `git stash`/`git checkout -- .` state). Run it as
        PYTHONPATH={wt}/src /venv/bin/python demo.py
      The demo should define its own small node classes (use class names unlikely to clash, e.g. prefixed with Demo) and check the property directly.

Deliverables, for change k in (1, 2), in directory {out}/k/ :
  - patch.diff : output of `git -C {wt} diff` for that change alone (relative to the pristine HEAD); it must apply with `git apply` on a pristine checkout
  - demo.py    : the demonstration
  - notes.md   : 5-10 lines: what the change is, which clause of the property it breaks, what exactly is needed for it to manifest, and the commands you ran with their results (tests pass with change; demo fails with change; demo passes without)

Procedure: read the relevant source first to understand how the property is implemented. Make change 1, run the full tests, run the demo (must fail), save `git diff` as patch.diff, then `git -C {wt} checkout -- .`, confirm the demo passes on the pristine tree. Repeat for change 2. Leave the worktree pristine at the end (`git -C {wt} status --short` empty). Do not commit anything.

Important: verify everything by actually running it. If a change makes any existing test fail, it does not count -- find another. Finish by reporting, for each change, a one-paragraph summary.""")
