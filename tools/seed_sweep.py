#!/usr/bin/env python3
"""tools/seed_sweep.py <VERIF_SEED> [<glob>]  - runs every stored seed's patch (that still applies to the
current /repo tree) against the quick check(s) that should report it, at another VERIF_SEED, two seeds at a
time; prints the ones NOT reported. Nothing is stored (meta.json records the result at VERIF_SEED=1)."""
import glob, json, os, shutil, subprocess, sys, tempfile
from concurrent.futures import ThreadPoolExecutor

VERIF = os.path.dirname(os.path.dirname(os.path.abspath(__file__)))
seed = sys.argv[1]
pat = sys.argv[2] if len(sys.argv) > 2 else "*"


def one(d):
    meta = json.load(open(os.path.join(d, "meta.json")))
    props = meta.get("detected_by") or [meta["breaks_property"]]
    scratch = tempfile.mkdtemp(prefix="pyoak-sweep.", dir="/tmp")
    try:
        subprocess.run(f"cd /repo && git ls-files -z | xargs -0 cp --parents -t {scratch}", shell=True, check=True)
        r = subprocess.run(f"cd {scratch} && patch -p1 -s < {d}/patch.diff", shell=True, capture_output=True, text=True)
        if r.returncode != 0:
            return (meta["seed_id"], "patch-does-not-apply", [])
        out = []
        for p in props:
            env = dict(os.environ, VERIF_REPO=scratch, VERIF_EVIDENCE_DIR=os.path.join(scratch, "ev"), VERIF_SEED=seed)
            c = subprocess.run([os.path.join(VERIF, "check.py"), p, "--tier", "quick"], capture_output=True, text=True, env=env, cwd=VERIF)
            out.append((p, c.returncode))
        ok = any(rc == 1 for _, rc in out)
        return (meta["seed_id"], "reported" if ok else "NOT-REPORTED", out)
    finally:
        shutil.rmtree(scratch, ignore_errors=True)


dirs = sorted(glob.glob(os.path.join(VERIF, "seeded", pat, "")))
with ThreadPoolExecutor(int(os.environ.get("SWEEP_WORKERS", "2"))) as ex:
    for sid, verdict, out in ex.map(one, [d.rstrip("/") for d in dirs]):
        if verdict != "reported":
            print(sid, verdict, out, flush=True)
print("sweep done", len(dirs))
