#!/usr/bin/env python3
"""tools/seed.py <src-dir> <seed-id> <Cxx> [<Cyy> ...]

Confirms an independently written breaking change and stores it under /verif/seeded/<seed-id>/.
<src-dir> holds patch.diff, demo.py, notes.md. In a scratch copy of /repo (outside /repo and
/verif, removed afterwards) it checks that
  1. the patch applies to the current /repo tree,
  2. the pinned test-suite still passes with it,
  3. demo.py exits non-zero with the patch and 0 without it,
and then runs the quick checks of the named properties against the patched copy and records
which of them report a VIOLATION.
"""
import json
import os
import shutil
import subprocess
import sys
import tempfile
import time

VERIF = os.path.dirname(os.path.dirname(os.path.abspath(__file__)))
PY = "/venv/bin/python"


def sh(cmd, **kw):
    return subprocess.run(cmd, shell=True, capture_output=True, text=True, **kw)


def main():
    src, seed_id, *props = sys.argv[1:]
    tier = os.environ.get("SEED_TIER", "quick")
    scratch = tempfile.mkdtemp(prefix="pyoak-seed.", dir="/tmp")
    try:
        clean = os.path.join(scratch, "clean")
        mut = os.path.join(scratch, "mut")
        for d in (clean, mut):
            os.makedirs(d)
            sh(f"cd /repo && git ls-files -z | xargs -0 cp --parents -t {d}")
        r = sh(f"cd {mut} && git apply --check {os.path.abspath(src)}/patch.diff 2>&1 || patch -p1 --dry-run < {os.path.abspath(src)}/patch.diff")
        r = sh(f"cd {mut} && patch -p1 < {os.path.abspath(src)}/patch.diff")
        if r.returncode != 0:
            print("PATCH DOES NOT APPLY:\n", r.stdout, r.stderr)
            return 2
        t = sh(f"cd {mut} && PYTHONPATH={mut}/src {PY} -m pytest -q -p no:cacheprovider --timeout=900 2>&1 | tail -1")
        tests_line = t.stdout.strip()
        tests_ok = " passed" in tests_line and "failed" not in tests_line and "error" not in tests_line
        demo = os.path.abspath(os.path.join(src, "demo.py"))
        d_mut = sh(f"cd {scratch} && PYTHONPATH={mut}/src {PY} {demo}")
        d_clean = sh(f"cd {scratch} && PYTHONPATH={clean}/src {PY} {demo}")
        print(f"tests with patch: {tests_line}")
        print(f"demo with patch rc={d_mut.returncode}; without rc={d_clean.returncode}")
        confirmed = tests_ok and d_mut.returncode != 0 and d_clean.returncode == 0
        results = {}
        for p in props:
            t0 = time.time()
            env = dict(os.environ, VERIF_REPO=mut, VERIF_EVIDENCE_DIR=os.path.join(scratch, "ev"))
            c = subprocess.run([os.path.join(VERIF, "check.py"), p, "--tier", tier], capture_output=True, text=True,
                               env=env, cwd=VERIF)
            lines = [ln for ln in c.stdout.splitlines() if ln.startswith(("VIOLATION", "failing case"))]
            results[p] = {"exit": c.returncode, "seconds": round(time.time() - t0, 1),
                          "output": [ln[:300] for ln in lines][:4]}
            print(f"  check {p} ({tier}): exit {c.returncode} {lines[:1]}")
            if c.returncode == 2:
                print(c.stderr[-1500:])
        if not confirmed:
            print("NOT CONFIRMED; nothing stored")
            return 1
        dst = os.path.join(VERIF, "seeded", seed_id)
        os.makedirs(dst, exist_ok=True)
        for f in ("patch.diff", "demo.py", "notes.md"):
            if os.path.exists(os.path.join(src, f)) and os.path.realpath(src) != os.path.realpath(dst):
                shutil.copy(os.path.join(src, f), os.path.join(dst, f))
        notes = open(os.path.join(src, "notes.md")).read() if os.path.exists(os.path.join(src, "notes.md")) else ""
        meta_path = os.path.join(dst, "meta.json")
        meta = json.load(open(meta_path)) if os.path.exists(meta_path) else {}
        meta.update({
            "seed_id": seed_id,
            "breaks_property": meta.get("breaks_property") or (props[0] if props else None),
            "origin": "written by a fresh sub-agent that saw only the property text and a scratch worktree",
            "needs_to_manifest": meta.get("needs_to_manifest") or notes.strip().split("\n\n")[0][:1200],
            "confirmed": {
                "repo_head": sh("git -C /repo rev-parse --short HEAD").stdout.strip(),
                "tests_with_patch": tests_line,
                "demo_exit_with_patch": d_mut.returncode,
                "demo_exit_without_patch": d_clean.returncode,
                "how": "tools/seed.py: scratch copy of /repo, patch -p1, pinned pytest command, demo.py with "
                       "PYTHONPATH=<copy>/src, then ./check.py <prop> --tier quick with VERIF_REPO=<copy>",
            },
        })
        meta.setdefault("checks", {}).update(results)
        meta["detected_by"] = sorted(p for p, r in meta["checks"].items() if r["exit"] == 1)
        json.dump(meta, open(meta_path, "w"), indent=1)
        print(f"stored {dst}; detected_by={meta['detected_by']}")
        return 0
    finally:
        shutil.rmtree(scratch, ignore_errors=True)


if __name__ == "__main__":
    sys.exit(main())
