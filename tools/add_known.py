#!/usr/bin/env python3
"""tools/add_known.py <prop> fixed|open <commit-or-'-'> <replay.json> <name> <what...>
Copies the replay into known/<prop>-<name>.json and records it in known_findings.json."""
import json, os, shutil, sys
HERE = os.path.dirname(os.path.dirname(os.path.abspath(__file__)))
prop, status, commit, replay, name = sys.argv[1:6]
what = " ".join(sys.argv[6:])
dst = f"known/{prop}-{name}.json"
os.makedirs(os.path.join(HERE, "known"), exist_ok=True)
shutil.copy(replay, os.path.join(HERE, dst))
path = os.path.join(HERE, "known_findings.json")
data = json.load(open(path)) if os.path.exists(path) else {"findings": []}
data["findings"] = [e for e in data["findings"] if e["replay"] != dst]
entry = {"property": prop, "status": status, "replay": dst, "what": what}
if status == "fixed":
    entry["commit"] = commit
    entry["line"] = f"fixed: property={prop} {commit} {what}"
else:
    entry["line"] = f"open: property={prop} {what}"
data["findings"].append(entry)
data["findings"].sort(key=lambda e: (e["property"], e["replay"]))
json.dump(data, open(path, "w"), indent=1)
print("recorded", dst)
