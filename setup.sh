#!/bin/bash
# Offline setup after a fresh restore: make sure hypothesis is importable by /venv/bin/python
# and (for the C17 thorough tier only) put atheris into /verif/.deps.
set -u
cd "$(dirname "$0")"
WH=/opt/veriftools/wheels
if ! /venv/bin/python -c "import hypothesis" 2>/dev/null; then
  PIP_NO_INDEX=1 /venv/bin/pip install --no-index --find-links "$WH" hypothesis || exit 1
fi
if ! PYTHONPATH=.deps /venv/bin/python -c "import atheris" 2>/dev/null; then
  PIP_NO_INDEX=1 /venv/bin/pip install --no-index --find-links "$WH" --target .deps atheris >/dev/null 2>&1 \
    || echo "note: atheris not installed; the C17 thorough tier will skip the coverage-guided part"
fi
/venv/bin/python -c "import hypothesis, pyoak; print('setup ok: hypothesis', hypothesis.__version__, 'pyoak from', pyoak.__file__)"
